#!/usr/bin/env python3
import json,sys
r=json.load(open(sys.argv[1]))
print(r['verdict'], 'paths',r['paths'],'cut',r['paths_cut'], r.get('aborted'))
seen=set()
for v in (r['violations'] or []):
    if v['label'] in seen: continue
    seen.add(v['label'])
    print('==',v['kind'],v['label'], v['pos'], v.get('class'), (v.get('msg') or '')[:300])
    print('  model:',[ (m['tag'],m['value']) for m in v['model'] if 'time' not in m['tag']])
    print('  events:',[e for e in (v.get('events') or []) if 'setenv' not in e])
