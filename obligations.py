"""Registry of obligations per property (see DESIGN.md section 6).

Each obligation: name, pkg (repo-relative pattern holding the harness entry),
per-tier config {entry, flags, bounds, timeout_s}, replay mechanism
(R1 native re-execution of the harness | custom | trace), must_reach labels.
"""

SCHED = "./internal/dag/scheduler"

COMMON_OUTSIDE = ["strings longer than the stated bound / non-ASCII bytes", "graphs with more steps than the stated N",
                  "everything behind an environment model (DESIGN.md section 3)"]

RUN_STUBS = ["-stub", "(*@/internal/dag/scheduler.Node).setup=zero", "-stub", "(*@/internal/dag/scheduler.Node).teardown=zero",
             "-stub", "@/internal/dag.EvalConditions=cond-eq"]
RUN_ASSUME = ["RUN harness: steps run through a scripted executor registered with the real executor.Register; every scripted command eventually completes (completion order unrestricted, outcome nondet)",
              "(*Node).setup/teardown stubbed to succeed (log files are C12's subject); dag.EvalConditions summarised exactly for literal conditions",
              "threads are pre-empted only at yield points (mutex/RWMutex acquisition, Sleep, channel ops); at most D deviations from the round-robin base schedule; polling loops stutter-reduced",
              "map iteration in insertion order; distinct step names"]
RUN_OUTSIDE = ["more than D scheduling delays", "repeatPolicy (except where stated)", "real processes, signals and pipes", "retry interval > 0 is a plain yield (no real time)"]


def run_ob(name, entry_q, dq, entry_t=None, dt=None, unwind=64, timeout_q=900, timeout_t=6000, bq=None, bt=None, must=None, extra=None):
    ob = {"name": name, "pkg": SCHED, "replay": "R1t", "labels_unordered": True,
          "quick": {"entry": entry_q, "flags": ["-unwind", str(unwind), "-delays", str(dq)] + (extra or []) + RUN_STUBS, "timeout_s": timeout_q,
                    "bounds": dict({"D": dq, "unwind": unwind}, **(bq or {})), "sample_paths": 2}}
    if entry_t:
        ob["thorough"] = {"entry": entry_t, "flags": ["-unwind", str(unwind), "-delays", str(dt)] + RUN_STUBS, "timeout_s": timeout_t,
                          "bounds": dict({"D": dt, "unwind": unwind}, **(bt or {})), "sample_paths": 2}
    if must:
        ob["must_assert"] = must
    return ob


def any_ob(prop, must=None):
    """RUN harness with commands ending at ANY yield point of any thread (one scheduling delay each), N=2."""
    return run_ob("%s.run-any" % prop, "VerifHarness_RUN_%s_n2any" % prop, 1, "VerifHarness_RUN_%s_n2any" % prop, 2, timeout_t=3000,
                  bq={"N": 2, "R": 1, "command_end": "at any yield point of any thread (costs one delay)"}, bt={"N": 2, "R": 1, "command_end": "at any yield point of any thread"}, must=must)


DAGPKG = "./internal/dag"
C13_FLAGS = ["-unwind", "16", "-solver", "cvc5", "-fallback", "z3", "-query-timeout-ms", "5000", "-stub", "@/internal/dag.substituteCommands=subst-cmd"]
C13_GROUPS = [("schedule", {"tree_depth": 2}), ("env", {"tree_depth": 2}), ("tags", {"tree_depth": 1}), ("params", {"fields": "params (non-evaluating option sets only)"}), ("strings", {"fields": "logDir smtp.host mail.from preconditions"}),
              ("step", {"command_tree_depth": 1}), ("executor", {"config_spine_depth": 3}), ("call", {}), ("handlers", {})]


def c13_obs(prop):
    obs = []
    for g, b in C13_GROUPS:
        ob = {"name": "%s.build/%s" % (prop, g), "pkg": DAGPKG, "replay": "R1",
              "quick": {"entry": "VerifHarness_%s_%s" % (prop, g), "flags": C13_FLAGS, "timeout_s": 1200, "sample_paths": 1,
                        "bounds": dict({"L": 6, "list_len": "0..2", "map_entries": "0..2", "option_sets": "LoadYAML/LoadWithoutEval, LoadMetadata, Load"}, **b)}}
        if prop == "C13":
            ob["label_prefixes"] = ["C13."]
            ob["must_reach"] = ["end", "accepted"] + ([] if g in ("tags", "params") else ["rejected"])
        else:
            ob["label_prefixes"] = ["C19."]
            ob["ignore_panics"] = True
            ob["must_assert"] = ["C19.pure/non-evaluating-load-executes-no-command"]
        obs.append(ob)
    if prop == "C13":
        obs.append({"name": "C13.precond", "pkg": DAGPKG, "replay": "R1", "must_reach": ["end", "evaluated"],
                    "quick": {"entry": "VerifHarness_C13_precond", "flags": ["-unwind", "24"] + C13_FLAGS[2:], "timeout_s": 900, "sample_paths": 1,
                              "bounds": {"L": 6, "conditions": "1..2", "command_output": "<= 8 bytes", "expanded_value": "<= 12 bytes"}}})
    return obs


PARAM_FLAGS = ["-unwind", "24", "-solver", "cvc5", "-fallback", "z3", "-query-timeout-ms", "5000", "-regex-exact", "16"]
PARAM_ASSUME = ["parameters are written by the harness in the documented syntax: bare word | \"quoted value\" (inner quotes written \\\") | NAME=bare | NAME=\"quoted\"; values range over every ASCII string of the stated length except backtick, $, backslash and NUL (command substitution, variable expansion and backslash escapes are separate features); bare words contain no white space or quote, unnamed bare words no '='; names are the letters P, Q",
                "regexp results are exact (-regex-exact): the subject's characters are forked over the partition of the alphabet induced by the pattern's character sets and Go's own regexp runs on a representative; the real builder runs in evaluating mode over the os.Setenv/Getenv model"]


def param_ob(prop, prefixes, must):
    q, t = (2, 3) if prop == "C11" else (1, 2)  # the round trip (C10) goes through the symbolic quoting of model.Params: smaller bounds
    return {"name": prop + ".params", "pkg": "./internal/persistence/model", "replay": "R1", "label_prefixes": prefixes, "must_assert": must,
            "quick": {"entry": "VerifHarness_%s_paramsL%d" % (prop, q), "flags": PARAM_FLAGS, "sample_paths": 2, "timeout_s": 1500, "bounds": {"parameters": 1, "value_len": "0..%d" % q}},
            "thorough": {"entry": "VerifHarness_%s_paramsL%d" % (prop, t), "flags": PARAM_FLAGS, "sample_paths": 2, "timeout_s": 7200, "bounds": {"parameters": 1, "value_len": "0..%d" % t}}}


C12_FLAGS = ["-unwind", "64", "-concrete-clock", "-solver", "cvc5", "-fallback", "z3", "-query-timeout-ms", "10000"]
C12_ASSUME = ["the real Scheduler.Schedule runs one step with the real Node.setup / Execute / teardown over the file-system model",
              "scripted executor delivers one stdout and one stderr chunk per attempt through os/exec's copying discipline (vfCopyTo: *os.File direct; io.ReaderFrom => ReadFrom; else Write)",
              "bufio.Writer model: 4096-byte buffer, large-write and ReadFrom bypass as in Go 1.23 (DESIGN 3.2); no I/O errors",
              "deterministic clock (distinct instants): log paths of different attempts differ"]

AG_FLAGS = ["-unwind", "64", "-concrete-clock", "-stub", "(*@/internal/sock.Client).Request=sock-request", "-stub", "@/internal/persistence/model.StatusFromJSON=json-lookup",
            "-stub", "(*@/internal/agent.reporter).reportStep=zero", "-stub", "(*@/internal/agent.reporter).report=zero", "-stub", "(*@/internal/agent.reporter).send=zero",
            "-stub", "(*@/internal/dag/scheduler.Node).setup=zero", "-stub", "(*@/internal/dag/scheduler.Node).teardown=zero", "-stub", "@/internal/dag.EvalConditions=cond-eq"]
AG_ASSUME = ["AGENT harness: the real agent.Run end to end over a recording history store, the socket/listener model, a scripted executor; reporter (console table, mail) and Node.setup/teardown stubbed"]


def ag_ob(name, entry, prefixes, must, bounds, must_reach=None):
    return {"must_reach": ["end"] if must_reach is None else must_reach, "name": name, "pkg": "./internal/agent", "replay": "R1t", "labels_unordered": True, "label_prefixes": prefixes, "must_assert": must,
            "quick": {"entry": entry, "flags": AG_FLAGS, "sample_paths": 1, "bounds": dict({"D": 0}, **bounds)}}


PROPS = {    "C01": {
        "obligations": [
            {"name": "C01.gate", "pkg": SCHED, "replay": "R1",
             "quick": {"entry": "VerifHarness_C01_gate3", "flags": ["-unwind", "16"], "bounds": {"N": 3}},
             "thorough": {"entry": "VerifHarness_C01_gate4", "flags": ["-unwind", "16"], "bounds": {"N": 4}}},
            run_ob("C01.run", "VerifHarness_RUN_C01_n3", 0, "VerifHarness_RUN_C01_n3", 1, bq={"N": 3, "R": 1}, bt={"N": 3, "R": 1},
                   must=["C01.run/dependency-finished-its-last-attempt"]),
            any_ob("C01"),
            run_ob("C01.run-d1", "VerifHarness_RUN_C01_n2", 1, "VerifHarness_RUN_C01_n2", 2, bq={"N": 2, "R": 1}, bt={"N": 2, "R": 1},
                   must=["C01.run/dependency-finished-its-last-attempt"]),
        ],
        "assumptions": ["distinct step names", "acyclic DAG (C14 owns the cyclic case)"] + RUN_ASSUME,
        "outside_claim": COMMON_OUTSIDE + RUN_OUTSIDE,
    },
    "C02": {
        "obligations": [
            {"name": "C02.gate", "pkg": SCHED, "replay": "R1", "must_assert": ["C02.gate/blocked-dependent-is-marked"],
             "quick": {"entry": "VerifHarness_C01_gate3", "flags": ["-unwind", "16"], "bounds": {"N": 3}},
             "thorough": {"entry": "VerifHarness_C01_gate4", "flags": ["-unwind", "16"], "bounds": {"N": 4}}},
            run_ob("C02.final", "VerifHarness_RUN_C02_n3", 0, "VerifHarness_RUN_C02_n3", 1, bq={"N": 3, "R": 1}, bt={"N": 3, "R": 1},
                   must=["C02.final/blocked-step-never-executed", "C02.final/unblocked-step-was-executed"]),
            any_ob("C02"),
            run_ob("C02.final-d1", "VerifHarness_RUN_C02_n2", 1, "VerifHarness_RUN_C02_n2", 2, bq={"N": 2, "R": 1}, bt={"N": 2, "R": 1},
                   must=["C02.final/blocked-step-never-executed"]),
        ],
        "assumptions": ["distinct step names", "acyclic DAG", "the run is not stopped"] + RUN_ASSUME,
        "outside_claim": COMMON_OUTSIDE + RUN_OUTSIDE,
    },
    "C03": {
        "obligations": [
            run_ob("C03.count", "VerifHarness_RUN_C03_n3", 0, "VerifHarness_RUN_C03_n3r2", 0, bq={"N": 3, "R": 1}, bt={"N": 3, "R": 2},
                   must=["C03.count/failing-step-is-retried-until-limit", "C03.count/recorded-retry-count-equals-extra-attempts"]),
            any_ob("C03"),
            run_ob("C03.count-d1", "VerifHarness_RUN_C03_n2", 1, None, None, bq={"N": 2, "R": 2},
                   must=["C03.count/failing-step-is-retried-until-limit"]),
            ag_ob("C03.dryagent", "VerifHarness_AG_dry", ["C03."], ["C03.dryagent/no-history-is-written", "C03.dryagent/no-step-or-handler-command-runs"], {"steps": 2, "shape": "chain | parallel", "handlers": "onExit"}),
            run_ob("C03.dry", "VerifHarness_RUN_C03_dry3", 0, "VerifHarness_RUN_C03_dry3", 1, bq={"N": 3}, bt={"N": 3},
                   must=["C03.dry/no-step-command-in-dry-run", "C03.dry/no-handler-command-in-dry-run"]),
        ],
        "assumptions": ["distinct step names", "acyclic DAG", "the run is not stopped"] + RUN_ASSUME,
        "outside_claim": COMMON_OUTSIDE + RUN_OUTSIDE,
    },
    "C04": {
        "obligations": [
            {"name": "C04.status", "pkg": SCHED, "replay": "R1",
             "quick": {"entry": "VerifHarness_C04_status3", "flags": ["-unwind", "16"], "bounds": {"N": 3}},
             "thorough": {"entry": "VerifHarness_C04_status4", "flags": ["-unwind", "16"], "bounds": {"N": 4}}},
            ag_ob("C04.precond", "VerifHarness_AG_precond", ["C04."], ["C04.precond/no-step-and-no-handler-runs", "C04.precond/nothing-is-recorded"], {"steps": 1, "dag_preconditions": "met | unmet (literal)"}),
            run_ob("C04.run", "VerifHarness_RUN_C04_n2", 0, "VerifHarness_RUN_C04_n3", 0, bq={"N": 2, "R": 1, "handlers": "every subset", "stop": "at quiescent points"}, bt={"N": 3, "R": 1},
                   must=["C04.handlers/matching-handler-runs-exactly-once", "C04.handlers/exit-handler-runs-last", "C04.inv/failed-step-implies-last-error"]),
            any_ob("C04"),
            run_ob("C04.run-d1", "VerifHarness_RUN_C04_n2s", 1, "VerifHarness_RUN_C04_n2", 1, bq={"N": 2, "R": 0, "handlers": "every subset", "stop": "at any yield point"}, bt={"N": 2, "R": 1},
                   must=["C04.handlers/matching-handler-runs-exactly-once"]),
        ],
        "assumptions": ["C04.status: end-of-run pre-state constrained by invariant J (DESIGN C04), which is asserted on the threaded run harness (C04.inv/*)",
                        "a stop that arrives after every step has ended does not define the outcome; stopped-and-failed may be labelled canceled or failed"] + RUN_ASSUME,
        "outside_claim": COMMON_OUTSIDE + RUN_OUTSIDE + ["handler time-outs, mail side effects"],
    },
    "C05": {
        "obligations": [
            run_ob("C05.stop", "VerifHarness_RUN_C05_n3", 0, "VerifHarness_RUN_C05_n3", 1, bq={"N": 3, "R": 1, "stop": "at quiescent points"}, bt={"N": 3, "R": 1, "stop": "at any yield point"},
                   must=["C05.nolaunch/no-step-command-starts-after-stop-accepted", "C05.stop/stopped-run-ends-canceled"]),
            run_ob("C05.repeat", "VerifHarness_RUN_C05_rep", 0, None, None, unwind=12, bq={"N": 2, "repeating_step": "s0 (interval 0)", "iterations": "<= 10 (longer waits for the stop are cut)", "stop": "at quiescent points"},
                   must=["C05.repeat/repeating-step-is-not-signalled", "C05.nolaunch/no-step-command-starts-after-stop-accepted"], extra=["-unwind-cut"]),
            {"name": "C05.group", "pkg": "./internal/dag/executor", "replay": "R1", "must_assert": ["C05.group/stop-signal-reaches-the-whole-process-group-of-the-step"],
             "quick": {"entry": "VerifHarness_C05_group", "flags": ["-unwind", "24"], "sample_paths": 1,
                       "bounds": {"pid": "2..4194304 (symbolic)", "signal": "1..31 (symbolic)", "native_replay": "a real sh with a background grandchild started through the real newCommand"}}},
            ag_ob("C05.escalate", "VerifHarness_AG_escalate", ["C05."], ["C05.escalate/stop-completes-only-after-the-process-ended-or-was-force-killed"],
                  {"steps": 1, "process": "ignores the stop signal, ends on its own at any later point", "stop": "while the process runs"}),
            run_ob("C05.timeout", "VerifHarness_RUN_C05_timeout", 0, None, None, bq={"N": 2, "R": 1, "timeout": "1h on a symbolic clock; expiry at any quiescent point, consistent with the program clock"},
                   must=["C05.timeout/no-step-command-starts-after-the-timeout", "C05.timeout/every-step-is-labelled-when-the-run-ends", "C05.timeout/timed-out-run-ends-canceled"]),
            any_ob("C05"),
            run_ob("C05.stop-d1", "VerifHarness_RUN_C05_n2", 1, "VerifHarness_RUN_C05_n2h", 1, bq={"N": 2, "R": 1, "stop": "at any yield point"}, bt={"N": 2, "R": 1, "handlers": "every subset"},
                   must=["C05.nolaunch/no-step-command-starts-after-stop-accepted"]),
        ],
        "assumptions": ["every scripted process exits when it receives the stop signal or on its own (processes that ignore the signal: C05.escalate, not built)"] + RUN_ASSUME,
        "outside_claim": COMMON_OUTSIDE + RUN_OUTSIDE + ["the MaxCleanUpTime bound itself (timers are order-only); the scripted executor honours an expired context the way exec.CommandContext does (refuses to start, terminates a running command)", "a stop racing with a repeating step's next iteration (pre-emption; same window as F5c)"],
    },
    "C15": {
        "obligations": [
            run_ob("C15.run", "VerifHarness_RUN_C15_n3", 0, "VerifHarness_RUN_C15_n4", 0, bq={"N": 3, "R": 1, "k": "0..N+1"}, bt={"N": 4, "R": 0, "k": "0..N+1"},
                   must=["C15.run/at-most-k-steps-executing"]),
            any_ob("C15"),
            run_ob("C15.run-d1", "VerifHarness_RUN_C15_n2", 1, "VerifHarness_RUN_C15_n3", 1, bq={"N": 2, "R": 1, "k": "0..N+1"}, bt={"N": 3, "R": 1},
                   must=["C15.run/at-most-k-steps-executing"]),
        ],
        "assumptions": ["a step counts as executing while its label is 'running' (includes waiting out a retry interval)", "termination for every k: every path must end with Schedule returned (deadlock/livelock are violations)"] + RUN_ASSUME,
        "outside_claim": COMMON_OUTSIDE + RUN_OUTSIDE,
    },
    "C06": {
        "obligations": [
            {"name": "C06." + n, "pkg": "./internal/persistence/jsondb", "replay": "R1",
             "quick": {"entry": "VerifHarness_C06_" + en, "flags": ["-unwind", "64", "-concrete-clock"] + (["-solver", "cvc5", "-fallback", "z3", "-query-timeout-ms", "3000"] if n == "bigrecord" else []), "sample_paths": 2, "bounds": b}}
            for n, en, b in (("newest", "newest2", {"runs": 2, "names": "a, ab, 'a b', a.b, a_c, [a], a*, 20260102.03:04:05", "start_offsets": "same ms, +1ms, +800ms, +1s, +1min, +1day", "writes_per_run": "1..2"}),
                             ("newest-3runs", "newest3", {"runs": 3, "names": "a, ab, 'a b'", "start_offsets": "6 classes, third run before the first"}),
                             ("byid", "byid", {"runs": 2, "ids": "sharing their first 8 characters", "update": "with/without manual update", "second_run": "closed or still open"}),
                             ("isolation", "isolation", {"dags": 2, "operations_on_the_other_dag": "remove-all, rename, update, new run"}),
                             ("rename", "rename", {"runs": 2, "names": "every ordered pair of the 8 names"}),
                             ("retention", "retention", {"runs": 2, "retention_days": "0, 1, 2", "file_age": "0h, 23h, 25h, 47h, 49h (aged with os.Chtimes)", "names": "a, ab, 'a b'"}),
                             ("today", "today", {"runs": "none | yesterday | today | both", "today_mode": "on"}),
                             ("editopen", "editopen", {"runs": 1, "sequence": "open, write, manual update by another store instance, [write], [close+compaction]", "names": "a, ab, 'a b'"}),
                             ("bigrecord", "bigrecord", {"runs": 1, "writes": 2, "record_size": "one of the two records carries a string of symbolic length <= 1000 or 66000..100000 bytes", "closed": "with / without compaction"}))
        ],
        "assumptions": ["file-system model (DESIGN 3.2); instants are concrete representatives (offset classes), file names therefore concrete: filepath.Glob / regexp / sort are evaluated exactly on them",
                        "status payloads are opaque JSON tokens (json.Marshal/Unmarshal registry model) with a symbolic wire size >= the symbolic strings they contain; bufio.Scanner stops with ErrTooLong on a payload line of 65536 bytes or more, bufio.Reader.ReadLine (used by the real reader) has no limit; the status cache is the real filecache executed from source",
                        "two runs started in the same millisecond whose request ids share their first 8 characters map to one file: outside the claim"],
        "outside_claim": COMMON_OUTSIDE + ["more than 3 runs per DAG, negative retention", "arbitrary symbolic DAG names (menu only)", "interleaved operation sequences longer than the ones listed"],
    },
    "C07": {
        "obligations": [
            {"name": "C07.crash", "pkg": "./internal/persistence/jsondb", "replay": "R1c",
             "must_assert": ["C07.completed/completed-run-is-still-found", "C07.ack/status-not-older-than-the-last-acknowledged-write", "C07.answers/no-run-is-listed-twice"],
             "quick": {"entry": "VerifHarness_C07_crash", "flags": ["-unwind", "64", "-concrete-clock"], "sample_paths": 2,
                       "bounds": {"prior_runs": 1, "interrupted_operation": "new run (open, 2 writes, close+compaction) | manual update | rename | remove-old",
                                  "crash_points": "every mutating FS operation (open/create, write, flush, remove, rename); torn write length symbolic", "names": "a, a_c"}}},
            {"name": "C07.crashthen", "pkg": "./internal/persistence/jsondb", "replay": "R1c",
             "must_assert": ["C07.then/acknowledged-edit-is-returned-by-lookup", "C07.then/recent-history-shows-the-acknowledged-edit", "C07.then/latest-status-shows-the-acknowledged-edit"],
             "quick": {"entry": "VerifHarness_C07_crashthen", "flags": ["-unwind", "64", "-concrete-clock"], "sample_paths": 2,
                       "bounds": {"prior_runs": 1, "interrupted_operation": "new run (open, 2 writes, close+compaction), killed at every mutating FS operation; torn write length symbolic",
                                  "then": "a fresh process applies a manual status update to the interrupted or to the completed run; lookup / recent / latest must show it"}}},
        ],
        "assumptions": ["kill = loss of user-space state only (page cache survives; no power loss); directory operations atomic; a torn JSON line never parses",
                        "crash counterexamples are reported from the symbolic trace (a kill cannot be injected into the in-process native replay)"],
        "outside_claim": COMMON_OUTSIDE + ["crash of a reader; concurrent writer + crash; more than one prior run", "fsync / power-failure durability"],
    },
    "C08": {
        "obligations": [
            {"name": "C08.latest", "pkg": "./internal/client", "replay": "R1",
             "quick": {"entry": "VerifHarness_C08_latest", "flags": ["-unwind", "16", "-stub", "(*@/internal/sock.Client).Request=sock-request", "-stub", "@/internal/persistence/model.StatusFromJSON=json-lookup"], "sample_paths": 2,
                       "bounds": {"socket": "live | dead", "history": "latest status (all 5 values) | none today | none | unreadable"}}},
            {"name": "C08.byid", "pkg": "./internal/client", "replay": "R1",
             "quick": {"entry": "VerifHarness_C08_byid", "flags": ["-unwind", "16", "-stub", "(*@/internal/sock.Client).Request=sock-request", "-stub", "@/internal/persistence/model.StatusFromJSON=json-lookup"], "sample_paths": 2,
                       "bounds": {"socket": "live (same run | other run) | dead", "persisted": "all 5 values"}}},
            ag_ob("C08.final", "VerifHarness_AG_run", ["C08.", "C04.handlers"], ["C08.final/final-status-is-final", "C08.final/attempt-counts-are-recorded", "C08.final/overall-status-matches-the-steps"], {"steps": "2 (chain)", "outcomes": "symbolic per attempt"}),
            run_ob("C08.persist", "VerifHarness_RUN_C08_n3", 0, "VerifHarness_RUN_C08_n3", 1, bq={"N": 3, "R": 1}, bt={"N": 3, "R": 1},
                   must=["C08.persist/run-in-progress-is-not-recorded-as-succeeded"]),
            run_ob("C08.persist-any", "VerifHarness_RUN_C08_n2any", 2, None, None, bq={"N": 2, "R": 0, "command_end": "at any yield point of any thread (one scheduling delay each), not only at quiescent points"},
                   must=["C08.persist/run-in-progress-is-not-recorded-as-succeeded"]),
            run_ob("C08.persist-d1", "VerifHarness_RUN_C08_n2", 1, "VerifHarness_RUN_C08_n2", 2, bq={"N": 2, "R": 1}, bt={"N": 2, "R": 1},
                   must=["C08.persist/run-in-progress-is-not-recorded-as-succeeded"]),
        ],
        "assumptions": ["(*sock.Client).Request summarised: no live listener => 'dial failed' error, live => the registered payload, hung peer => ErrTimeout; model.StatusFromJSON succeeds exactly on registered payloads",
                        "history store is a recording fake (C06/C07 own the real one)",
                        "C08.persist: the status snapshot the agent persists after each finished step is Scheduler.Status evaluated by the done-channel consumer, as agent.Run does"] + RUN_ASSUME,
        "outside_claim": COMMON_OUTSIDE + RUN_OUTSIDE + ["the agent's own write protocol and a kill at each of its system calls (C08.persist over agent.Run, C08.final field mapping, C08.restart): not built", "PID reuse, socket path collisions"],
    },
    "C09": {
        "obligations": [
            {"name": "C09.tick", "pkg": "./internal/scheduler", "replay": "R1t", "labels_unordered": True,
             "must_assert": ["C09.tick/scheduled-minute-is-not-missed", "C09.tick/no-start-unless-scheduled-unsuspended-idle-and-not-yet-run", "C09.tick/stop-acts-only-on-running-dags",
                             "C09.tick/restart-issued-at-each-matching-minute"],
             "quick": {"entry": "VerifHarness_C09_tick1", "flags": ["-unwind", "32"], "sample_paths": 2,
                       "bounds": {"dags": 1, "start_schedules": "0..2", "stop_schedules": "0..1", "restart_schedules": "0..1", "ticks": 1, "D": 0,
                                  "latest_run": "none | earlier minute | previous minute :59 | same minute :00 | same minute :59 | later minute", "status": "all 5"}},
             "thorough": {"entry": "VerifHarness_C09_tick1", "flags": ["-unwind", "32", "-delays", "1"], "sample_paths": 2, "bounds": {"dags": 1, "D": 1}}},
            {"name": "C09.ticks", "pkg": "./internal/scheduler", "replay": "R1",
             "must_assert": ["C09.ticks/minutes-are-consecutive-none-skipped-none-repeated"],
             "quick": {"entry": "VerifHarness_C09_ticks3", "flags": ["-unwind", "32"], "sample_paths": 1,
                       "bounds": {"ticks": 3, "lateness_per_tick": "0s | 20s | 70s | 200s", "daemon_start_second": ":00 | :25 | :50"}},
             "thorough": {"entry": "VerifHarness_C09_ticks4", "flags": ["-unwind", "32"], "sample_paths": 1, "bounds": {"ticks": 4}}},
            {"name": "C09.tick-2dags", "pkg": "./internal/scheduler", "replay": "R1t", "labels_unordered": True,
             "quick": {"entry": "VerifHarness_C09_tick2", "flags": ["-unwind", "32"], "sample_paths": 2,
                       "bounds": {"dags": 2, "start_schedules": "0..1 each", "stop_schedules": "0..1", "restart_schedules": "0..1", "ticks": 1, "D": 0}}},
        ],
        "assumptions": ["cron.Schedule.Next replaced by its contract over a per-schedule match bit for the tick minute T: Next(T-1s) = T iff the schedule matches T, else a later minute (robfig/cron grammar x calendar is outside the claim)",
                        "instants are concrete representatives (tick minute fixed, latest run in 6 position classes); match bits, suspended flags and statuses are symbolic",
                        "fake client.Client: GetLatestStatus never errors (an unreadable latest status is C07/C08 territory)", "time.Local = UTC"],
        "outside_claim": COMMON_OUTSIDE + ["cron 5-field grammar over the real calendar", "daemon restarts beyond the latest-run guard of C09.tick, directory watching (C09.files): not built", "schedule forms (C09.forms) are covered by C13.build/schedule"],
    },
    "C10": {
        "obligations": [
            {"name": "C10.reset", "pkg": SCHED, "replay": "R1",
             "quick": {"entry": "VerifHarness_C10_reset4", "flags": ["-unwind", "24"], "bounds": {"N": 4, "recorded_status": "all 6 values", "retry/done counts": "0..2"}},
             "thorough": {"entry": "VerifHarness_C10_reset4", "flags": ["-unwind", "24"], "bounds": {"N": 4}}},
            {"name": "C10.reset-order", "pkg": SCHED, "replay": "R1",
             "quick": {"entry": "VerifHarness_C10_resetperm3", "flags": ["-unwind", "24"], "bounds": {"N": 3, "declaration_order": "every permutation of the steps (a dependant may be declared before its upstream step)", "recorded_status": "all 6 values"}},
             "thorough": {"entry": "VerifHarness_C10_resetperm4", "flags": ["-unwind", "24"], "timeout_s": 3600, "bounds": {"N": 4, "declaration_order": "every permutation"}}},
            ag_ob("C10.retry", "VerifHarness_AG_retry", ["C10."], ["C10.newrun/history-is-opened-under-the-new-request-id", "C10.exec/unfinished-step-is-re-executed", "C10.exec/step-that-completed-is-not-re-executed"],
                  {"steps": "2 (chain)", "recorded_status": "all 6 values per step, reachable vectors", "continueOn.failure": "symbolic"}),
            param_ob("C10", ["C10."], ["C10.params/recorded-parameters-parse-back-to-the-same-values"]),
        ],
        "assumptions": ["distinct step names", "C10.reset hands the recorded steps over in a topological order; C10.reset-order in every declaration order"] + PARAM_ASSUME,
        "outside_claim": COMMON_OUTSIDE + ["parameter strings with more than one parameter or values longer than 3 bytes; an unnamed value containing '=' is recorded as word=word and read back as a named parameter (same strings, one more environment variable): not distinguished by the oracle"],
    },
    "C11": {
        "obligations": [
            {"name": "C11.retry", "pkg": SCHED, "replay": "R1", "must_assert": ["C11.retry/captured-output-is-restored-unchanged-for-a-retry"],
             "quick": {"entry": "VerifHarness_C11_retryrestore", "flags": ["-unwind", "16", "-solver", "cvc5", "-fallback", "z3"], "sample_paths": 1, "bounds": {"value_len": "<= 6 bytes (ASCII), symbolic"}}},
            {"name": "C11.out", "pkg": SCHED, "replay": "R1t", "labels_unordered": True, "label_prefixes": ["C11."], "must_assert": ["C11.out/captured-output-is-trimmed-stdout-in-environment"],
             "quick": {"entry": "VerifHarness_C12_bytes", "flags": C12_FLAGS, "sample_paths": 2, "bounds": {"attempts": "1..2", "chunk_len": "<= 6 bytes (ASCII)", "config": "stdout file x stderr file x output variable"}},
             "thorough": {"entry": "VerifHarness_C12_bytes3", "flags": C12_FLAGS, "sample_paths": 2, "bounds": {"attempts": "1..3", "chunk_len": "<= 6 bytes (ASCII)"}}},
            {"name": "C11.big", "pkg": SCHED, "replay": "R1t", "labels_unordered": True, "label_prefixes": ["C11."], "must_assert": ["C11.big/step-with-captured-output-finishes"],
             "quick": {"entry": "VerifHarness_C11_big", "flags": C12_FLAGS[:-1] + ["3000"], "sample_paths": 1,
                       "bounds": {"attempts": 1, "captured_output_len": "<= 100000 bytes, symbolic (crosses the 65536-byte pipe capacity)", "pipe_capacity": 65536}}},
            param_ob("C11", ["C11."], ["C11.params/positional-parameter-has-exactly-the-given-value", "C11.params/named-parameter-has-exactly-the-given-value"]),
            {"name": "C11.see", "pkg": "./internal/dag/executor", "replay": "R1", "must_assert": ["C11.see/later-step-child-process-sees-the-captured-value"],
             "quick": {"entry": "VerifHarness_C11_see", "flags": ["-unwind", "24"], "sample_paths": 2, "bounds": {"value_len": "<= 4 bytes (ASCII, no NUL)", "later_step_variables": "none | another name | the same name (DAG env block / named parameter)"}}},
            {"name": "C11.params-2", "pkg": "./internal/persistence/model", "replay": "R1", "label_prefixes": ["C11."], "must_assert": ["C11.params/positional-parameter-has-exactly-the-given-value"],
             "quick": {"entry": "VerifHarness_C11_paramsL1", "flags": PARAM_FLAGS, "sample_paths": 1, "bounds": {"parameters": 1, "value_len": "0..1"}},
             "thorough": {"entry": "VerifHarness_C11_params2x1", "flags": PARAM_FLAGS, "sample_paths": 2, "timeout_s": 3600, "bounds": {"parameters": 2, "value_len": "0..1 each"}}},
        ],
        "assumptions": C12_ASSUME + PARAM_ASSUME + ["os.Pipe: a write that would take the pipe beyond 65536 bytes blocks until a thread is reading the pipe to EOF (io.Copy), forever if none does; io.Copy from a pipe returns after the write end is closed"],
        "outside_claim": COMMON_OUTSIDE + ["parameter strings with more than one parameter, values longer than 3 bytes, backslashes / command substitution / variable expansion inside parameter values; parameters overridden at start (same parser, other entry)",
                                           "C11.see starts after the capture (os.Setenv done, decided by C11.out); the inherited environment of the agent process is outside the model (os.Environ = variables set by the program); os/exec keeping the last duplicate is an assumption", "C11.big decides termination only (content of a >64 KiB value is not compared)", "non-ASCII output"],
    },
    "C12": {
        "obligations": [
            {"name": "C12.bytes", "pkg": SCHED, "replay": "R1t", "labels_unordered": True, "label_prefixes": ["C12."], "must_assert": ["C12.bytes/log-holds-last-attempt-stdout", "C12.bytes/stdout-file-holds-last-attempt-stdout"],
             "quick": {"entry": "VerifHarness_C12_bytes", "flags": C12_FLAGS, "sample_paths": 2, "bounds": {"attempts": "1..2", "chunk_len": "<= 6 bytes (ASCII)", "config": "stdout file x stderr file x output variable"}},
             "thorough": {"entry": "VerifHarness_C12_bytes3", "flags": C12_FLAGS, "sample_paths": 2, "bounds": {"attempts": "1..3"}}},
            {"name": "C12.big", "pkg": SCHED, "replay": "R1t", "labels_unordered": True, "label_prefixes": ["C12."],
             "quick": {"entry": "VerifHarness_C12_big", "flags": C12_FLAGS, "sample_paths": 0, "bounds": {"attempts": "1..2", "chunk_len": "<= 10000 bytes, symbolic (crosses the 4096-byte bufio boundary)", "config": "stdout file x stderr file"}}},
        ],
        "assumptions": C12_ASSUME,
        "outside_claim": COMMON_OUTSIDE + ["byte interleaving between stdout and stderr", "real pipes and child processes", "log path collisions within one millisecond (deterministic clock)", "I/O errors"],
    },
    "C13": {
        "obligations": c13_obs("C13"),
        "assumptions": ["the claim starts at the decoded definition (yaml.v2 / mapstructure are outside): typed fields conform to their Go types, list items may be nil, untyped fields range over the tree grammar nil|string|int|bool|float64|[]any|map[any]any",
                        "one field group at a time carries the full menu, every other field is held at a fixed well-formed value",
                        "cron.Parser.Parse: real parser for constant specs; symbolic specs shorter than 9 bytes are invalid (five fields need 9 bytes, descriptors are disabled)",
                        "dag.substituteCommands summarised (I/O shell): no backtick segment => identity, otherwise ghost exec event + arbitrary result",
                        "regexp FindAllString/FindAllStringSubmatch/ReplaceAllString over-approximated (DESIGN 3.1); unix.SignalNum exact (Linux table)",
                        "parameter parsing under evaluation (Load with params) is not explored (DESIGN section 7)"],
        "outside_claim": COMMON_OUTSIDE + ["arbitrary bytes: yaml.v2 and mapstructure decoding", "base-config merge (mergo)", "C13.serial is checked on every accepted step/handler (json.Marshal model: fails on map[any]any and NaN/Inf)"],
    },
    "C18": {
        "obligations": [
            {"name": "C18." + n, "pkg": "./internal/client", "replay": rp,
             "quick": {"entry": "VerifHarness_C18_" + n, "sample_paths": 2,
                       "flags": ["-unwind", "16", "-stub", "@/internal/dag.LoadYAML=load-yaml", "-stub", "@/internal/dag.LoadWithoutEval=load-file", "-stub", "@/internal/dag.LoadMetadata=load-file"],
                       "bounds": {"names": "a, b, 'a b', a.b, ab", "texts": "valid A, valid B, valid new, invalid, empty", "operations": 1, "crash_points": "every mutating FS operation of the save; torn length symbolic"}}}
            for n, rp in (("nooverwrite", "R1"), ("save", "R1c"), ("delete", "R1"))
        ],
        "assumptions": ["file-system model (DESIGN 3.2): os.WriteFile = open+truncate, write (may be torn at any prefix), close; os.Rename atomic and replacing; kill = loss of user-space state only",
                        "dag.LoadYAML / LoadWithoutEval summarised: validity of a text is a harness-declared bit (C13 owns the loader); history store is a recording fake (C06 owns it)",
                        "crash counterexamples are reported from the symbolic trace (a kill cannot be injected into the in-process native replay)"],
        "outside_claim": COMMON_OUTSIDE + ["concurrent API calls (TOCTOU between exists and write)", "permissions and I/O errors", "sequences of more than one operation", "power-loss durability"],
    },
    "C19": {
        "obligations": c13_obs("C19"),
        "assumptions": ["same harness and environment models as C13; command execution is observed as ghost exec events of the os/exec model and of the substituteCommands summary, environment changes as ghost setenv events of the os.Setenv model",
                        "native replay plants canary executables on PATH for every backtick segment of the counterexample and diffs os.Environ()"],
        "outside_claim": COMMON_OUTSIDE + ["yaml.v2 / mapstructure", "base-config merge", "effects of reading the environment (os.ExpandEnv)"],
    },
    "C20": {
        "obligations": [
            {"name": "C20.guards", "pkg": "./internal/frontend/dag", "replay": "R1",
             "must_assert": ["C20.guards/start-refused-while-running", "C20.guards/stop-refused-when-not-running", "C20.guards/status-edit-refused-when-running-or-malformed",
                             "C20.edit/other-steps-untouched", "C20.guards/unknown-or-missing-action-refused", "C20.params/start-passes-parameters-unchanged"],
             "quick": {"entry": "VerifHarness_C20_guards2", "flags": ["-unwind", "16", "-solver", "cvc5", "-fallback", "z3", "-query-timeout-ms", "5000"],
                       "bounds": {"recorded_nodes": 2, "name_len": 3, "string_len": 6, "actions": "8 known + unknown + nil", "dag_status": "all 5", "node_status": "all 6"}},
             "thorough": {"entry": "VerifHarness_C20_guards3", "flags": ["-unwind", "16", "-solver", "cvc5", "-fallback", "z3", "-query-timeout-ms", "5000"],
                          "bounds": {"recorded_nodes": 3, "name_len": 3, "string_len": 6}}},
            {"name": "C20.params", "pkg": "./cmd", "replay": "R1",
             "quick": {"entry": "VerifHarness_C20_params3", "flags": ["-unwind", "16", "-solver", "cvc5", "-fallback", "z3", "-query-timeout-ms", "5000", "-bytes"], "bounds": {"param_len": "0..3 bytes, every well-formed UTF-8 string (byte mode)"}},
             "thorough": {"entry": "VerifHarness_C20_params4", "flags": ["-unwind", "16", "-solver", "cvc5", "-fallback", "z3", "-query-timeout-ms", "5000", "-bytes"], "bounds": {"param_len": "0..4 bytes, every well-formed UTF-8 string (byte mode)"}}},
            {"name": "C20.params-ascii", "pkg": "./cmd", "replay": "R1",
             "quick": {"entry": "VerifHarness_C20_params3", "flags": ["-unwind", "16", "-solver", "cvc5", "-fallback", "z3", "-query-timeout-ms", "5000"], "bounds": {"param_len": "0..3 (ASCII)"}},
             "thorough": {"entry": "VerifHarness_C20_params6", "flags": ["-unwind", "16", "-solver", "cvc5", "-fallback", "z3", "-query-timeout-ms", "5000"], "bounds": {"param_len": "0..6 (ASCII)"}}},
        ],
        "assumptions": ["Handler.postAction is driven directly over a recording fake client.Client (go-swagger binding/validation outside)",
                        "the status edit is checked on the object handed to client.UpdateStatus; the persistence of that object is C06's subject",
                        "C20.params: the spawned command line is modelled as Sprintf(quote, escapeArg(p)) -> removeQuotes, the three real functions; process spawning itself is outside",
                        "C20.params runs in byte mode (-bytes): strings are byte strings 0..255, `range` over a string decodes UTF-8 (fork over the well-formed sequence classes + ill-formed), WriteRune encodes; the parameter is assumed well-formed UTF-8 (utf8.ValidString, as a decoded JSON string is)"],
        "outside_claim": COMMON_OUTSIDE + ["go-swagger parameter binding/validation, remote-node proxying, process spawning", "sequences of several API actions over the real stores (C20.edit over the real client: not built)"],
    },
    "C14": {
        "obligations": [
            {"name": "C14.iff", "pkg": SCHED, "replay": "R1",
             "quick": {"entry": "VerifHarness_C14_iff4", "flags": ["-unwind", "40"], "bounds": {"N": 4, "edge_bits": 16, "self_loops": 1, "dangling": 0}},
             "thorough": {"entry": "VerifHarness_C14_iff4", "flags": ["-unwind", "40"], "bounds": {"N": 4, "edge_bits": 16, "self_loops": 1}}},
            {"name": "C14.iff-dangling", "pkg": SCHED, "replay": "R1",
             "quick": {"entry": "VerifHarness_C14_iff3", "flags": ["-unwind", "40"], "bounds": {"N": 3, "edge_bits": 9, "self_loops": 1, "dangling": "none | one step, first or last in depends"}},
             "thorough": {"entry": "VerifHarness_C14_iff4d", "flags": ["-unwind", "40"], "bounds": {"N": 4, "edge_bits": 12, "self_loops": 0, "dangling": "none | one step, first or last in depends"}}},
            {"name": "C14.iff-5steps", "pkg": SCHED, "replay": "R1",
             "thorough": {"entry": "VerifHarness_C14_iff5", "flags": ["-unwind", "60"], "timeout_s": 7200, "sample_paths": 2, "bounds": {"N": 5, "edge_bits": 20, "self_loops": 0, "dangling": 0}}},
            ag_ob("C14.refuse", "VerifHarness_AG_refuse", ["C14."], ["C14.refuse/no-step-or-handler-executes", "C14.refuse/nothing-is-recorded"], {"defects": "2-cycle | self-dependency | dangling name | cycle behind an entry step"}),
        ],
        "assumptions": ["distinct step names", "map iteration in insertion order (results do not depend on order for distinct names)"] + AG_ASSUME,
        "outside_claim": COMMON_OUTSIDE + ["random graphs of up to 40 steps (sampling; not this technique)"],
    },
    "C16": {
        "obligations": [
            {"name": "C16.refuse", "pkg": "./internal/agent", "replay": "R1",
             "must_assert": ["C16.refuse/second-start-is-refused-while-a-run-is-active", "C16.refuse/hung-peer-is-not-overrun", "C16.refuse/start-proceeds-when-no-run-is-active"],
             "quick": {"entry": "VerifHarness_C16_refuse", "sample_paths": 2,
                       "flags": ["-unwind", "32", "-concrete-clock", "-stub", "(*@/internal/sock.Client).Request=sock-request", "-stub", "@/internal/persistence/model.StatusFromJSON=json-lookup"],
                       "bounds": {"socket": "no socket file | first run answers (status running/failed/canceled/finished) | peer hangs | stale socket file", "steps": 1, "handlers": "onExit"}}},
            ag_ob("C16.race", "VerifHarness_C16_race", ["C16."], ["C16.race/two-simultaneous-starts-never-both-execute-steps"], {"agents": 2, "steps": 1, "instant_of_second_start": "between the first run's probe and its bind (forced)"},
                  must_reach=[]),  # every path of this obligation ends in the listed finding F16
            ag_ob("C16.window", "VerifHarness_C16_window", ["C16."], ["C16.window/second-start-is-refused-once-the-first-run-is-listening", "C16.window/first-run-is-not-disturbed", "C16.window/first-run-status-endpoint-keeps-answering-after-the-refusal"],
                  {"agents": 2, "steps": 1, "instant_of_second_start": "after the first run's socket is listening, before its steps start (forced); the probe is answered by the first run's real HandleHTTP"}),
        ],
        "assumptions": ["C16.race: two real agent.Run calls on one DAG file; run A is parked (channel in its history fake) after its socket probe and before its bind while run B starts and runs; unix-socket listener model: bind fails iff the path exists, unlink orphans the listener",
                        "the real agent.Run and client.GetCurrentStatus run over the socket model ((*sock.Client).Request summarised: dial failure / registered payload / timeout)",
                        "history store is a recording fake whose Open ends the accepting path once it has been reached"],
        "outside_claim": COMMON_OUTSIDE + ["a second start at every other instant of the first run's start-up (C16.race forces one: between probe and bind)",
                                           "that the active run's socket keeps answering and its history stays intact during the refused start beyond 'no history call is made'", "retry of the same file"],
    },
    "C17": {
        "obligations": [
            {"name": "C17.chain", "pkg": "./internal/frontend/middleware", "replay": "R1",
             "quick": {"entry": "VerifHarness_C17_chain4", "flags": ["-unwind", "24", "-solver", "cvc5", "-fallback", "z3", "-query-timeout-ms", "5000"],
                       "bounds": {"secret_len": 4, "header": "absent | <6 bytes | 6 bytes ++ base64(cred<=9) | 6 bytes ++ undecodable tail<=8", "methods": "GET POST OPTIONS", "base_path": "'' | /x", "split_separators": 3}},
             "thorough": {"entry": "VerifHarness_C17_chain6", "flags": ["-unwind", "24", "-solver", "cvc5", "-fallback", "z3", "-query-timeout-ms", "10000"], "timeout_s": 3000,
                          "bounds": {"secret_len": 6, "header": "absent | <6 bytes | 6 bytes ++ base64(cred<=13) | 6 bytes ++ undecodable tail<=12", "methods": "GET POST OPTIONS", "base_path": "'' | /x", "split_separators": 3}}},
        ],
        "assumptions": ["(*http.Request).BasicAuth replaced by its contract over the harness-declared decoding: the credential part is either base64(cred) (encoder uninterpreted but length- and alphabet-exact) or a tail containing a non-base64 byte (the chain never inspects the alphabet other than through base64 decoding)",
                        "chi RequestID/Logger/Recoverer are identity wrappers", "a configured token containing a space cannot be presented in standard form (RFC 6750) and is excluded from the completeness clause only",
                        "OPTIONS requests count as passed when the CORS layer behind the auth chain answered them"],
        "outside_claim": COMMON_OUTSIDE + ["go-swagger routing behind the chain", "TLS, timing side channels", "headers with more than 3 spaces (cut, counted in paths_cut_by_bound)"],
    },
}


def custom_replay(ob, entry, v, scratch, repo, env):
    return None, "no custom replay registered", None

NOT_BUILT = {}
