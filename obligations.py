"""Registry of obligations per property (see DESIGN.md section 6).

Each obligation: name, pkg (repo-relative pattern holding the harness entry),
per-tier config {entry, flags, bounds, timeout_s}, replay mechanism
(R1 native re-execution of the harness | custom | trace), must_reach labels.
"""

SCHED = "./internal/dag/scheduler"

COMMON_OUTSIDE = ["strings longer than the stated bound / non-ASCII bytes", "graphs with more steps than the stated N",
                  "everything behind an environment model (DESIGN.md section 3)"]

PROPS = {
    "C01": {
        "obligations": [
            {"name": "C01.gate", "pkg": SCHED, "replay": "R1",
             "quick": {"entry": "VerifHarness_C01_gate3", "flags": ["-unwind", "16"], "bounds": {"N": 3}},
             "thorough": {"entry": "VerifHarness_C01_gate4", "flags": ["-unwind", "16"], "bounds": {"N": 4}}},
        ],
        "assumptions": ["distinct step names", "acyclic DAG (C14 owns the cyclic case)"],
        "outside_claim": COMMON_OUTSIDE,
    },
    "C04": {
        "obligations": [
            {"name": "C04.status", "pkg": SCHED, "replay": "R1",
             "quick": {"entry": "VerifHarness_C04_status3", "flags": ["-unwind", "16"], "bounds": {"N": 3}},
             "thorough": {"entry": "VerifHarness_C04_status4", "flags": ["-unwind", "16"], "bounds": {"N": 4}}},
        ],
        "assumptions": ["end-of-run pre-state constrained by invariant J (DESIGN C04), which is asserted on the threaded run harness"],
        "outside_claim": COMMON_OUTSIDE + ["handler time-outs, mail side effects"],
    },
    "C10": {
        "obligations": [
            {"name": "C10.reset", "pkg": SCHED, "replay": "R1",
             "quick": {"entry": "VerifHarness_C10_reset4", "flags": ["-unwind", "24"], "bounds": {"N": 4, "recorded_status": "all 6 values", "retry/done counts": "0..2"}},
             "thorough": {"entry": "VerifHarness_C10_reset4", "flags": ["-unwind", "24"], "bounds": {"N": 4}}},
        ],
        "assumptions": ["distinct step names", "recorded steps listed in a topological order (as the builder produces them is NOT assumed by the code; the harness builds deps j<i)"],
        "outside_claim": COMMON_OUTSIDE + ["parameter values of the recorded run (regexp submatch semantics; DESIGN section 7)"],
    },
    "C14": {
        "obligations": [
            {"name": "C14.iff", "pkg": SCHED, "replay": "R1",
             "quick": {"entry": "VerifHarness_C14_iff4", "flags": ["-unwind", "40"], "bounds": {"N": 4, "edge_bits": 16, "self_loops": 1, "dangling": 0}},
             "thorough": {"entry": "VerifHarness_C14_iff4", "flags": ["-unwind", "40"], "bounds": {"N": 4, "edge_bits": 16, "self_loops": 1}}},
            {"name": "C14.iff-dangling", "pkg": SCHED, "replay": "R1",
             "quick": {"entry": "VerifHarness_C14_iff3", "flags": ["-unwind", "40"], "bounds": {"N": 3, "edge_bits": 9, "self_loops": 1, "dangling": "none | one step, first or last in depends"}},
             "thorough": {"entry": "VerifHarness_C14_iff4d", "flags": ["-unwind", "40"], "bounds": {"N": 4, "edge_bits": 12, "self_loops": 0, "dangling": "none | one step, first or last in depends"}}},
        ],
        "assumptions": ["distinct step names", "map iteration in insertion order (results do not depend on order for distinct names)"],
        "outside_claim": COMMON_OUTSIDE + ["random graphs of up to 40 steps (sampling; not this technique)"],
    },
    "C17": {
        "obligations": [
            {"name": "C17.chain", "pkg": "./internal/frontend/middleware", "replay": "R1",
             "quick": {"entry": "VerifHarness_C17_chain4", "flags": ["-unwind", "24", "-solver", "cvc5", "-fallback", "z3", "-query-timeout-ms", "5000"],
                       "bounds": {"secret_len": 4, "header": "absent | <6 bytes | 6 bytes ++ base64(cred<=9) | 6 bytes ++ undecodable tail<=8", "methods": "GET POST OPTIONS", "base_path": "'' | /x", "split_separators": 3}},
             "thorough": {"entry": "VerifHarness_C17_chain6", "flags": ["-unwind", "24", "-solver", "cvc5", "-fallback", "z3", "-query-timeout-ms", "10000"], "timeout_s": 3000,
                          "bounds": {"secret_len": 6, "header": "absent | <6 bytes | 6 bytes ++ base64(cred<=13) | 6 bytes ++ undecodable tail<=12", "methods": "GET POST OPTIONS", "base_path": "'' | /x", "split_separators": 3}}},
        ],
        "assumptions": ["(*http.Request).BasicAuth replaced by its contract over the harness-declared decoding: the credential part is either base64(cred) (encoder uninterpreted but length- and alphabet-exact) or a tail containing a non-base64 byte (the chain never inspects the alphabet other than through base64 decoding)",
                        "chi RequestID/Logger/Recoverer are identity wrappers", "a configured token containing a space cannot be presented in standard form (RFC 6750) and is excluded from the completeness clause only",
                        "OPTIONS requests count as passed when the CORS layer behind the auth chain answered them"],
        "outside_claim": COMMON_OUTSIDE + ["go-swagger routing behind the chain", "TLS, timing side channels", "headers with more than 3 spaces (cut, counted in paths_cut_by_bound)"],
    },
}


def custom_replay(ob, entry, v, scratch, repo, env):
    return None, "no custom replay registered", None

NOT_BUILT = {}
