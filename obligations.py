"""Registry of obligations per property (see DESIGN.md section 6).

Each obligation: name, pkg (repo-relative pattern holding the harness entry),
per-tier config {entry, flags, bounds, timeout_s}, replay mechanism
(R1 native re-execution of the harness | custom | trace), must_reach labels.
"""

SCHED = "./internal/dag/scheduler"

COMMON_OUTSIDE = ["strings longer than the stated bound / non-ASCII bytes", "graphs with more steps than the stated N",
                  "everything behind an environment model (DESIGN.md section 3)"]

PROPS = {
    "C01": {
        "obligations": [
            {"name": "C01.gate", "pkg": SCHED, "replay": "R1",
             "quick": {"entry": "VerifHarness_C01_gate3", "flags": ["-unwind", "16"], "bounds": {"N": 3}},
             "thorough": {"entry": "VerifHarness_C01_gate4", "flags": ["-unwind", "16"], "bounds": {"N": 4}}},
        ],
        "assumptions": ["distinct step names", "acyclic DAG (C14 owns the cyclic case)"],
        "outside_claim": COMMON_OUTSIDE,
    },
}


def custom_replay(ob, entry, v, scratch, repo, env):
    return None, "no custom replay registered", None
