package agent

import (
	"context"
	"errors"
	"io"
	"os"
	"syscall"
	"time"

	"github.com/ErdemOzgen/blackdagger/internal/client"
	"github.com/ErdemOzgen/blackdagger/internal/dag"
	"github.com/ErdemOzgen/blackdagger/internal/dag/executor"
	"github.com/ErdemOzgen/blackdagger/internal/dag/scheduler"
	"github.com/ErdemOzgen/blackdagger/internal/logger"
	"github.com/ErdemOzgen/blackdagger/internal/persistence"
	"github.com/ErdemOzgen/blackdagger/internal/persistence/model"
)

// AGENT: the real agent.Run end to end over a recording history store, the socket /
// listener model and a scripted executor. Obligations: dry-run records nothing (C03),
// unmet DAG preconditions run nothing (C04), ill-formed graphs are refused before
// anything runs (C14), a retry is recorded as a new run and re-executes only the
// unfinished part (C10), the final persisted status equals what happened (C08).

type vfAgHist struct {
	openedID string
	writes   []*model.Status
}

var vfAgH *vfAgHist

func (h *vfAgHist) Open(dagFile string, t time.Time, requestID string) error {
	vfEvent("hist", 1, 0)
	h.openedID = requestID
	return nil
}
func (h *vfAgHist) Write(status *model.Status) error {
	vfEvent("hist", 2, 0)
	h.writes = append(h.writes, status)
	return nil
}
func (h *vfAgHist) Close() error { vfEvent("hist", 3, 0); return nil }
func (h *vfAgHist) Update(dagFile, requestID string, st *model.Status) error {
	vfEvent("hist", 4, 0)
	return nil
}
func (h *vfAgHist) ReadStatusRecent(dagFile string, n int) []*model.StatusFile { return nil }
func (h *vfAgHist) ReadStatusToday(dagFile string) (*model.Status, error) {
	return nil, persistence.ErrNoStatusData
}
func (h *vfAgHist) FindByRequestID(dagFile string, requestID string) (*model.StatusFile, error) {
	return nil, persistence.ErrRequestIDNotFound
}
func (h *vfAgHist) RemoveAll(dagFile string) error { vfEvent("hist", 5, 0); return nil }
func (h *vfAgHist) RemoveOld(dagFile string, retentionDays int) error {
	vfEvent("hist", 6, 0)
	return nil
}
func (h *vfAgHist) Rename(oldName, newName string) error { vfEvent("hist", 7, 0); return nil }

type vfAgStores struct{}

func (vfAgStores) HistoryStore() persistence.HistoryStore { return vfAgH }
func (vfAgStores) DAGStore() persistence.DAGStore         { return nil }
func (vfAgStores) FlagStore() persistence.FlagStore       { return nil }

type vfAgExec struct{ idx int }

var vfAgNames = []string{"s0", "s1", "s2"}

func vfAgIndex(name string) int {
	for i, n := range vfAgNames {
		if n == name {
			return i
		}
	}
	return 10
}

var errVfAg = errors.New("scripted failure")

func (vfAgExec) SetStdout(out io.Writer)  {}
func (vfAgExec) SetStderr(out io.Writer)  {}
func (vfAgExec) Kill(sig os.Signal) error { return nil }
func (e vfAgExec) Run() error {
	a := vfCount("start", e.idx)
	vfEvent("start", e.idx, a)
	vfWaitTurn("complete", e.idx, a)
	fail := vfBool("fail")
	vfEvent("end", e.idx, 0)
	if fail {
		vfEvent("endfail", e.idx, a)
		return errVfAg
	}
	return nil
}

func vfAgSetup() (*vfAgHist, client.Client, logger.Logger) {
	executor.Register("verifag", func(ctx context.Context, step dag.Step) (executor.Executor, error) {
		vfEvent("create", vfAgIndex(step.Name), 0)
		return vfAgExec{idx: vfAgIndex(step.Name)}, nil
	})
	vfAgH = &vfAgHist{}
	lg := logger.NewLogger(logger.NewLoggerArgs{Quiet: true})
	return vfAgH, client.New(vfAgStores{}, "", "", lg), lg
}

func vfAgStep(name string, deps ...string) dag.Step {
	return dag.Step{Name: name, Depends: deps, ExecutorConfig: dag.ExecutorConfig{Type: "verifag"}}
}

func vfAgDAG(steps ...dag.Step) *dag.DAG {
	dir := "/logs"
	if vfNative() {
		dir = os.TempDir()
	}
	return &dag.DAG{Name: "d", Location: dir + "/vfagent-d.yaml", SMTP: &dag.SMTPConfig{}, Steps: steps, LogDir: dir,
		HandlerOn: dag.HandlerOn{Exit: &dag.Step{Name: "onExit", ExecutorConfig: dag.ExecutorConfig{Type: "verifag"}}}}
}

func vfAgLogDir() string {
	if vfNative() {
		return os.TempDir()
	}
	return "/logs"
}

// C03.dryagent: a dry run through the agent executes nothing and writes no history.
func VerifHarness_AG_dry() {
	_, cl, lg := vfAgSetup()
	d := vfAgDAG(vfAgStep("s0"), vfAgStep("s1", "s0"))
	if vfChoice("parallel", 2) == 1 {
		d.Steps[1].Depends = nil
	}
	a := New("req-dry", d, lg, vfAgLogDir(), vfAgLogDir()+"/agent.log", cl, vfAgStores{}, &Options{Dry: true})
	err := a.Run(context.Background())
	vfAssert(err == nil, "C03.dryagent/dry-run-completes")
	vfAssert(vfCount("hist", -1) == 0, "C03.dryagent/no-history-is-written")
	vfAssert(vfCount("create", -1) == 0 && vfCount("start", -1) == 0, "C03.dryagent/no-step-or-handler-command-runs")
	vfAssert(vfCount("listen", -1) == 0, "C03.dryagent/no-status-socket-is-opened")
	vfReach("end")
}

// C04.precond: unmet DAG-level preconditions: no step, no handler, no history.
func VerifHarness_AG_precond() {
	_, cl, lg := vfAgSetup()
	d := vfAgDAG(vfAgStep("s0"))
	met := vfChoice("met", 2) == 1
	if met {
		d.Preconditions = []dag.Condition{{Condition: "x", Expected: "x"}}
	} else {
		d.Preconditions = []dag.Condition{{Condition: "x", Expected: "y"}}
	}
	a := New("req-pre", d, lg, vfAgLogDir(), vfAgLogDir()+"/agent.log", cl, vfAgStores{}, &Options{})
	err := a.Run(context.Background())
	if !met {
		vfAssert(err != nil, "C04.precond/unmet-preconditions-refuse-the-run")
		vfAssert(vfCount("create", -1) == 0 && vfCount("start", -1) == 0, "C04.precond/no-step-and-no-handler-runs")
		vfAssert(vfCount("hist", 1) == 0 && vfCount("hist", 2) == 0, "C04.precond/nothing-is-recorded")
	} else {
		vfAssert(vfCount("start", 0) == 1, "C04.precond/met-preconditions-let-the-run-proceed")
	}
	vfReach("end")
}

// C14.refuse: a graph with a cycle, a self-dependency or a dangling name is refused
// before any step or handler executes and nothing is recorded as having run.
func VerifHarness_AG_refuse() {
	_, cl, lg := vfAgSetup()
	var d *dag.DAG
	switch vfChoice("defect", 4) {
	case 0:
		d = vfAgDAG(vfAgStep("s0", "s1"), vfAgStep("s1", "s0"))
	case 1:
		d = vfAgDAG(vfAgStep("s0"), vfAgStep("s1", "s1"))
	case 2:
		d = vfAgDAG(vfAgStep("s0"), vfAgStep("s1", "nope"))
	case 3:
		d = vfAgDAG(vfAgStep("s2"), vfAgStep("s0", "s1"), vfAgStep("s1", "s0")) // a cycle no entry step leads into
	}
	a := New("req-bad", d, lg, vfAgLogDir(), vfAgLogDir()+"/agent.log", cl, vfAgStores{}, &Options{})
	err := a.Run(context.Background())
	vfAssert(err != nil, "C14.refuse/ill-formed-graph-is-refused")
	vfAssert(vfCount("create", -1) == 0 && vfCount("start", -1) == 0, "C14.refuse/no-step-or-handler-executes")
	vfAssert(vfCount("hist", -1) == 0, "C14.refuse/nothing-is-recorded")
	vfAssert(vfCount("listen", -1) == 0, "C14.refuse/no-status-socket-is-opened")
	vfReach("end")
}

// C08.final / C10.newrun: a complete run (or a retry of a recorded run) through the agent.
func vfAgRun(retry bool) {
	h, cl, lg := vfAgSetup()
	d := vfAgDAG(vfAgStep("s0"), vfAgStep("s1", "s0"))
	d.Steps[0].ContinueOn.Failure = vfBool("cof")
	opts := &Options{}
	recorded := make([]scheduler.NodeStatus, 2)
	if retry {
		rec := &model.Status{Name: "d", RequestID: "recorded-run", Status: scheduler.StatusError}
		for i, s := range d.Steps {
			recorded[i] = scheduler.NodeStatus(vfRange("rec", 0, 5))
			rec.Nodes = append(rec.Nodes, &model.Node{Step: s, Status: recorded[i], StatusText: recorded[i].String()})
		}
		// reachable recorded vectors only: s1 ran (or was skipped by itself) only after s0 let it
		s0ok := recorded[0] == scheduler.NodeStatusSuccess || (recorded[0] == scheduler.NodeStatusError && d.Steps[0].ContinueOn.Failure)
		vfAssume(s0ok || recorded[1] == scheduler.NodeStatusNone || recorded[1] == scheduler.NodeStatusCancel || (recorded[1] == scheduler.NodeStatusSkipped && recorded[0] == scheduler.NodeStatusSkipped))
		opts.RetryTarget = rec
	}
	a := New("new-run", d, lg, vfAgLogDir(), vfAgLogDir()+"/agent.log", cl, vfAgStores{}, opts)
	err := a.Run(context.Background())
	_ = err
	vfAssert(h.openedID == "new-run", "C10.newrun/history-is-opened-under-the-new-request-id")
	vfAssert(len(h.writes) >= 1, "C08.final/a-final-status-is-persisted")
	for _, w := range h.writes {
		vfAssert(w.RequestID == "new-run", "C10.newrun/recorded-run-is-never-written")
	}
	last := h.writes[len(h.writes)-1]
	ran0, ran1 := vfCount("start", 0), vfCount("start", 1)
	fail0, fail1 := vfCount("endfail", 0) > 0, vfCount("endfail", 1) > 0
	if retry {
		kept0 := recorded[0] == scheduler.NodeStatusSuccess || recorded[0] == scheduler.NodeStatusSkipped
		if kept0 {
			vfAssert(ran0 == 0, "C10.exec/step-that-completed-is-not-re-executed")
		} else {
			vfAssert(ran0 == 1, "C10.exec/unfinished-step-is-re-executed")
		}
		kept1 := kept0 && (recorded[1] == scheduler.NodeStatusSuccess || recorded[1] == scheduler.NodeStatusSkipped)
		if kept1 {
			vfAssert(ran1 == 0, "C10.exec/kept-downstream-step-is-not-re-executed")
		}
		if !kept0 && ran0 == 1 && (!fail0 || d.Steps[0].ContinueOn.Failure) {
			vfAssert(ran1 == 1, "C10.exec/step-downstream-of-a-retried-step-is-re-executed")
		}
	}
	// the persisted final status tells what happened
	vfAssert(last.Status != scheduler.StatusRunning && last.Status != scheduler.StatusNone, "C08.final/final-status-is-final")
	for i, n := range last.Nodes {
		ran, failed := ran0, fail0
		if i == 1 {
			ran, failed = ran1, fail1
		}
		if ran > 0 {
			if failed {
				vfAssert(n.Status == scheduler.NodeStatusError, "C08.final/failed-step-is-recorded-failed")
			} else {
				vfAssert(n.Status == scheduler.NodeStatusSuccess, "C08.final/finished-step-is-recorded-finished")
			}
			vfAssert(n.RetryCount == ran-1 && n.DoneCount == 1, "C08.final/attempt-counts-are-recorded")
		} else if !retry {
			vfAssert(n.Status == scheduler.NodeStatusCancel || n.Status == scheduler.NodeStatusSkipped, "C08.final/step-that-never-ran-is-canceled-or-skipped")
		}
	}
	allOK := true
	for _, n := range last.Nodes {
		if n.Status != scheduler.NodeStatusSuccess && n.Status != scheduler.NodeStatusSkipped {
			allOK = false
		}
	}
	vfAssert((last.Status == scheduler.StatusSuccess) == allOK, "C08.final/overall-status-matches-the-steps")
	vfAssert(vfCount("start", 10) == 1, "C04.handlers/exit-handler-runs-once-through-the-agent")
	vfReach("end")
}

func VerifHarness_AG_run()   { vfAgRun(false) }
func VerifHarness_AG_retry() { vfAgRun(true) }

// C05.escalate: a step process that ignores the stop signal. The real agent.signal
// (SIGTERM with override, re-send timer, MaxCleanUpTime timer) must not report the stop as
// complete while the process is still running unless it has been force-killed.
type vfStubbornExec struct{ idx int }

func (vfStubbornExec) SetStdout(out io.Writer) {}
func (vfStubbornExec) SetStderr(out io.Writer) {}
func (e vfStubbornExec) Kill(sig os.Signal) error {
	s, _ := sig.(syscall.Signal)
	if s == syscall.SIGKILL {
		vfEvent("forcekill", e.idx, 0)
		if vfNative() {
			close(vfStubbornGate)
		}
	} else {
		vfEvent("kill", e.idx, int(s))
	}
	return nil
}

var vfStubbornGate chan struct{}

func (e vfStubbornExec) Run() error {
	vfEvent("start", e.idx, 0)
	if vfNative() {
		<-vfStubbornGate // natively the process keeps running until the stop has been reported complete (or it is force-killed)
	} else {
		vfWaitTurn("complete", e.idx, 0) // ends on its own, whenever the environment lets it
	}
	vfEvent("end", e.idx, 0)
	if vfCount("kill", e.idx) > 0 {
		return errVfAg
	}
	return nil
}

func VerifHarness_AG_escalate() {
	_, cl, lg := vfAgSetup()
	executor.Register("verifstubborn", func(ctx context.Context, step dag.Step) (executor.Executor, error) {
		return vfStubbornExec{idx: vfAgIndex(step.Name)}, nil
	})
	d := vfAgDAG(dag.Step{Name: "s0", ExecutorConfig: dag.ExecutorConfig{Type: "verifstubborn"}})
	d.HandlerOn = dag.HandlerOn{}
	vfStubbornGate = make(chan struct{})
	d.MaxCleanUpTime = time.Minute
	if vfNative() {
		d.MaxCleanUpTime = 300 * time.Millisecond
	}
	a := New("req-esc", d, lg, vfAgLogDir(), vfAgLogDir()+"/agent.log", cl, vfAgStores{}, &Options{})
	go func() {
		vfWaitTurn("stop", 0, 0)
		if vfCount("start", 0) == 0 || vfCount("end", 0) > 0 {
			return // the stop only matters while the process is running
		}
		vfEvent("stop", 0, 0)
		a.signal(syscall.SIGTERM, true)
		ended := vfCount("end", 0) > 0
		forceKilled := vfCount("forcekill", 0) > 0
		if !ended && !forceKilled {
			vfClass("process-ignoring-the-signal-is-never-force-killed")
		}
		vfAssert(ended || forceKilled, "C05.escalate/stop-completes-only-after-the-process-ended-or-was-force-killed")
		vfEvent("signal-returned", 0, 0)
		if vfNative() && !forceKilled {
			close(vfStubbornGate)
		}
	}()
	_ = a.Run(context.Background())
	if vfCount("stop", 0) > 0 {
		vfAssert(vfCount("kill", 0) >= 1, "C05.escalate/running-process-is-sent-the-stop-signal")
	}
	vfReach("end")
}
