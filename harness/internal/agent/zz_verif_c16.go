package agent

import (
	"context"
	"errors"
	"io"
	"os"
	"time"

	"github.com/ErdemOzgen/blackdagger/internal/client"
	"github.com/ErdemOzgen/blackdagger/internal/dag"
	"github.com/ErdemOzgen/blackdagger/internal/dag/executor"
	"github.com/ErdemOzgen/blackdagger/internal/dag/scheduler"
	"github.com/ErdemOzgen/blackdagger/internal/logger"
	"github.com/ErdemOzgen/blackdagger/internal/persistence"
	"github.com/ErdemOzgen/blackdagger/internal/persistence/model"
)

// C16.refuse: a second start of a DAG file whose first run's status socket answers is
// refused before anything is recorded or executed; a hung peer is not overrun; without a
// live socket the run proceeds to open its history. The real agent.Run and the real
// client.GetCurrentStatus run over the socket model and a recording history fake.

type vfHist16 struct{}

var errVf16 = errors.New("history store closed for this obligation")

func (vfHist16) Open(dagFile string, t time.Time, requestID string) error {
	vfEvent("hist", 1, 0)
	return errVf16 // the accepting path is cut here: it has been shown to proceed
}
func (vfHist16) Write(status *model.Status) error { vfEvent("hist", 2, 0); return nil }
func (vfHist16) Close() error                     { vfEvent("hist", 3, 0); return nil }
func (vfHist16) Update(dagFile, requestID string, st *model.Status) error {
	vfEvent("hist", 4, 0)
	return nil
}
func (vfHist16) ReadStatusRecent(dagFile string, n int) []*model.StatusFile { return nil }
func (vfHist16) ReadStatusToday(dagFile string) (*model.Status, error) {
	return nil, persistence.ErrNoStatusData
}
func (vfHist16) FindByRequestID(dagFile string, requestID string) (*model.StatusFile, error) {
	return nil, persistence.ErrRequestIDNotFound
}
func (vfHist16) RemoveAll(dagFile string) error { vfEvent("hist", 5, 0); return nil }
func (vfHist16) RemoveOld(dagFile string, retentionDays int) error {
	vfEvent("hist", 6, 0)
	return nil
}
func (vfHist16) Rename(oldName, newName string) error { vfEvent("hist", 7, 0); return nil }

type vfStores16 struct{}

func (vfStores16) HistoryStore() persistence.HistoryStore { return vfHist16{} }
func (vfStores16) DAGStore() persistence.DAGStore         { return nil }
func (vfStores16) FlagStore() persistence.FlagStore       { return nil }

type vfExec16 struct{}

func (vfExec16) SetStdout(out io.Writer)  {}
func (vfExec16) SetStderr(out io.Writer)  {}
func (vfExec16) Kill(sig os.Signal) error { return nil }
func (vfExec16) Run() error               { vfEvent("start", 0, 0); return nil }

func VerifHarness_C16_refuse() {
	executor.Register("verif16", func(ctx context.Context, step dag.Step) (executor.Executor, error) {
		return vfExec16{}, nil
	})
	d := &dag.DAG{Name: "d", Location: "/dags/d.yaml", SMTP: &dag.SMTPConfig{}, Steps: []dag.Step{{Name: "s", ExecutorConfig: dag.ExecutorConfig{Type: "verif16"}}},
		HandlerOn: dag.HandlerOn{Exit: &dag.Step{Name: "onExit", ExecutorConfig: dag.ExecutorConfig{Type: "verif16"}}}}
	sock := vfChoice("socket", 4) // 0 no socket file, 1 another run answers, 2 peer hangs, 3 stale socket file of a killed run
	otherStatus := scheduler.Status(vfRange("otherStatus", 1, 4))
	other := &model.Status{Name: "d", RequestID: "first-run", Status: otherStatus}
	if sock == 3 {
		vfSockStale(d.SockAddr())
	} else {
		vfSock(d.SockAddr(), sock != 0, sock == 2, vfJSON(other))
	}
	lg := logger.NewLogger(logger.NewLoggerArgs{Quiet: true})
	stores := vfStores16{}
	cl := client.New(stores, "", "", lg)
	a := New("second-run", d, lg, "/logs", "/logs/agent.log", cl, stores, &Options{})
	err := a.Run(context.Background())
	hist, starts := vfCount("hist", -1), vfCount("start", -1)
	switch sock {
	case 1:
		vfAssert(errors.Is(err, errDAGIsAlreadyRunning), "C16.refuse/second-start-is-refused-while-a-run-is-active")
		vfAssert(hist == 0, "C16.refuse/refused-start-records-nothing")
		vfAssert(starts == 0, "C16.refuse/refused-start-executes-nothing")
	case 2:
		vfAssert(err != nil && hist == 0 && starts == 0, "C16.refuse/hung-peer-is-not-overrun")
	default:
		vfAssert(vfCount("hist", 1) == 1, "C16.refuse/start-proceeds-when-no-run-is-active")
		vfAssert(starts == 0, "C16.refuse/no-step-runs-before-history-is-open")
	}
	vfReach("end")
}
