package agent

import (
	"context"
	"errors"
	"io"
	"net/http"
	neturl "net/url"
	"os"
	"time"

	"github.com/ErdemOzgen/blackdagger/internal/client"
	"github.com/ErdemOzgen/blackdagger/internal/dag"
	"github.com/ErdemOzgen/blackdagger/internal/dag/executor"
	"github.com/ErdemOzgen/blackdagger/internal/logger"
	"github.com/ErdemOzgen/blackdagger/internal/persistence"
	"github.com/ErdemOzgen/blackdagger/internal/persistence/model"
)

// C16.race: two starts of the same DAG file issued at (almost) the same moment. Run A is
// parked after it has probed the status socket and while it opens its history (a point of
// its start-up before its own socket is bound); run B then starts and runs completely;
// then A continues. Never both may execute steps. The park/resume is done with ordinary
// channels inside A's history store, so the schedule is forced natively as well.

type vfRaceHist struct {
	id     string
	parked chan struct{}
	resume chan struct{}
}

func (h *vfRaceHist) Open(dagFile string, t time.Time, requestID string) error {
	vfEvent("hist-open", vfRaceIdx(requestID), 0)
	if h.parked != nil {
		h.parked <- struct{}{} // A has probed the socket and found no active run
		<-h.resume
	}
	return nil
}
func (h *vfRaceHist) Write(status *model.Status) error                         { return nil }
func (h *vfRaceHist) Close() error                                             { return nil }
func (h *vfRaceHist) Update(dagFile, requestID string, st *model.Status) error { return nil }
func (h *vfRaceHist) ReadStatusRecent(dagFile string, n int) []*model.StatusFile {
	return nil
}
func (h *vfRaceHist) ReadStatusToday(dagFile string) (*model.Status, error) {
	return nil, persistence.ErrNoStatusData
}
func (h *vfRaceHist) FindByRequestID(dagFile string, requestID string) (*model.StatusFile, error) {
	return nil, persistence.ErrRequestIDNotFound
}
func (h *vfRaceHist) RemoveAll(dagFile string) error                    { return nil }
func (h *vfRaceHist) RemoveOld(dagFile string, retentionDays int) error { return nil }
func (h *vfRaceHist) Rename(oldName, newName string) error              { return nil }

type vfRaceStores struct{ h *vfRaceHist }

func (s vfRaceStores) HistoryStore() persistence.HistoryStore { return s.h }
func (s vfRaceStores) DAGStore() persistence.DAGStore         { return nil }
func (s vfRaceStores) FlagStore() persistence.FlagStore       { return nil }

func vfRaceIdx(requestID string) int {
	if requestID == "run-A" {
		return 0
	}
	return 1
}

type vfRaceExec struct{ idx int }

func (vfRaceExec) SetStdout(out io.Writer)  {}
func (vfRaceExec) SetStderr(out io.Writer)  {}
func (vfRaceExec) Kill(sig os.Signal) error { return nil }
func (e vfRaceExec) Run() error {
	vfEvent("step-start", e.idx, 0)
	return nil
}

func VerifHarness_C16_race() {
	executor.Register("verifrace", func(ctx context.Context, step dag.Step) (executor.Executor, error) {
		idx := 1
		if dc, err := dag.GetContext(ctx); err == nil {
			for _, e := range dc.Envs {
				if e.Key == dag.EnvKeyRequestID && e.Value == "run-A" {
					idx = 0
				}
			}
		}
		return vfRaceExec{idx: idx}, nil
	})
	lg := logger.NewLogger(logger.NewLoggerArgs{Quiet: true})
	d := vfAgDAG(dag.Step{Name: "s0", ExecutorConfig: dag.ExecutorConfig{Type: "verifrace"}})
	d.HandlerOn = dag.HandlerOn{}
	hA := &vfRaceHist{id: "run-A", parked: make(chan struct{}), resume: make(chan struct{})}
	hB := &vfRaceHist{id: "run-B"}
	sA, sB := vfRaceStores{hA}, vfRaceStores{hB}
	a := New("run-A", d, lg, vfAgLogDir(), vfAgLogDir()+"/agentA.log", client.New(sA, "", "", lg), sA, &Options{})
	b := New("run-B", d, lg, vfAgLogDir(), vfAgLogDir()+"/agentB.log", client.New(sB, "", "", lg), sB, &Options{})
	doneA := make(chan error)
	go func() { doneA <- a.Run(context.Background()) }()
	<-hA.parked // A is in the middle of its start-up, its socket not bound yet
	errB := b.Run(context.Background())
	hA.resume <- struct{}{}
	errA := <-doneA
	ranA, ranB := vfCount("step-start", 0) > 0, vfCount("step-start", 1) > 0
	if ranA && ranB {
		vfClass("second-start-between-probe-and-bind")
	}
	vfAssert(!(ranA && ranB), "C16.race/two-simultaneous-starts-never-both-execute-steps")
	vfAssert(ranA || ranB, "C16.race/one-of-the-two-starts-runs")
	_, _ = errA, errB
	vfReach("end")
}

// C16.window: run A is parked after its status socket is listening and before its steps
// start (inside the DataStores.DAGStore() call that builds the DAG context); a second
// start must be refused, because A's socket answers "running" from the moment it listens.
type vfWindowStores struct {
	h      *vfRaceHist
	parked chan struct{}
	resume chan struct{}
}

func (s *vfWindowStores) HistoryStore() persistence.HistoryStore { return s.h }
func (s *vfWindowStores) DAGStore() persistence.DAGStore {
	if s.parked != nil {
		s.parked <- struct{}{}
		<-s.resume
	}
	return nil
}
func (s *vfWindowStores) FlagStore() persistence.FlagStore { return nil }

type vfRecorder struct {
	hdr  http.Header
	body string
	code int
}

func (r *vfRecorder) Header() http.Header {
	if r.hdr == nil {
		r.hdr = http.Header{}
	}
	return r.hdr
}
func (r *vfRecorder) Write(b []byte) (int, error) { r.body += string(b); return len(b), nil }
func (r *vfRecorder) WriteHeader(code int)        { r.code = code }

func VerifHarness_C16_window() {
	executor.Register("verifrace", func(ctx context.Context, step dag.Step) (executor.Executor, error) {
		idx := 1
		if dc, err := dag.GetContext(ctx); err == nil {
			for _, e := range dc.Envs {
				if e.Key == dag.EnvKeyRequestID && e.Value == "run-A" {
					idx = 0
				}
			}
		}
		return vfRaceExec{idx: idx}, nil
	})
	lg := logger.NewLogger(logger.NewLoggerArgs{Quiet: true})
	d := vfAgDAG(dag.Step{Name: "s0", ExecutorConfig: dag.ExecutorConfig{Type: "verifrace"}})
	d.HandlerOn = dag.HandlerOn{}
	sA := &vfWindowStores{h: &vfRaceHist{id: "run-A"}, parked: make(chan struct{}), resume: make(chan struct{})}
	sB := &vfWindowStores{h: &vfRaceHist{id: "run-B"}}
	a := New("run-A", d, lg, vfAgLogDir(), vfAgLogDir()+"/agentA.log", client.New(sA, "", "", lg), sA, &Options{})
	b := New("run-B", d, lg, vfAgLogDir(), vfAgLogDir()+"/agentB.log", client.New(sB, "", "", lg), sB, &Options{})
	vfSockHandler(d.SockAddr(), func(method, url string) string {
		rec := &vfRecorder{}
		a.HandleHTTP(rec, &http.Request{Method: method, URL: &neturl.URL{Path: url}})
		return rec.body
	})
	doneA := make(chan error)
	go func() { doneA <- a.Run(context.Background()) }()
	<-sA.parked // A's status socket is listening; its steps have not started
	errB := b.Run(context.Background())
	// the refused start must leave the first run's status endpoint alone
	cur, errCur := client.New(sB, "", "", lg).GetCurrentStatus(d)
	answering := errCur == nil && cur != nil && cur.RequestID == "run-A"
	sA.resume <- struct{}{}
	<-doneA
	vfAssert(errors.Is(errB, errDAGIsAlreadyRunning), "C16.window/second-start-is-refused-once-the-first-run-is-listening")
	vfAssert(answering, "C16.window/first-run-status-endpoint-keeps-answering-after-the-refusal")
	vfAssert(vfCount("step-start", 1) == 0 && vfCount("hist-open", 1) == 0, "C16.window/refused-start-runs-and-records-nothing")
	vfAssert(vfCount("step-start", 0) == 1, "C16.window/first-run-is-not-disturbed")
	vfReach("end")
}
