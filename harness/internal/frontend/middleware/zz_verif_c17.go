package middleware

import (
	"net/http"
	"net/url"
	"strings"

	"github.com/ErdemOzgen/blackdagger/internal/logger"
)

type vfRW struct {
	hdr  http.Header
	code int
}

func (w *vfRW) Header() http.Header { return w.hdr }
func (w *vfRW) Write(b []byte) (int, error) {
	if w.code == 0 {
		w.code = 200
	}
	return len(b), nil
}
func (w *vfRW) WriteHeader(c int) {
	if w.code == 0 {
		w.code = c
	}
}

var vfMethods = []string{"GET", "POST", "OPTIONS"}

// vfHarnessC17 drives the assembled middleware chain with an arbitrary auth configuration
// and an arbitrary Authorization header. L bounds the secrets, HL the free header parts.
func vfHarnessC17(L, HL int) {
	var ab *AuthBasic
	if vfChoice("cfg.basic", 2) == 1 {
		ab = &AuthBasic{Username: vfString("cfg.user", L), Password: vfString("cfg.pass", L)}
	}
	var at *AuthToken
	if vfChoice("cfg.token", 2) == 1 {
		at = &AuthToken{Token: vfString("cfg.tokenval", L)}
	}
	bp := ""
	if vfChoice("cfg.basepath", 2) == 1 {
		bp = "/x"
	}
	apiHit, defHit := false, false
	api := http.HandlerFunc(func(w http.ResponseWriter, r *http.Request) { apiHit = true; w.WriteHeader(200) })
	def := http.HandlerFunc(func(w http.ResponseWriter, r *http.Request) { defHit = true; w.WriteHeader(200) })
	Setup(&Options{Handler: def, AuthBasic: ab, AuthToken: at, Logger: logger.NewLogger(logger.NewLoggerArgs{Quiet: true}), BasePath: bp})
	h := SetupGlobalMiddleware(api)

	method := vfMethods[vfChoice("req.method", len(vfMethods))]
	isAPI := vfChoice("req.api", 2) == 1
	var path string
	if isAPI {
		path = bp + "/api" + vfString("req.tail", 3)
	} else {
		rest := vfString("req.other", 5)
		vfAssume(!strings.HasPrefix(rest, "/api"))
		vfAssume(bp == "" || rest != "/") // "/" with a base path is redirected; covered separately
		path = bp + rest
	}
	r := &http.Request{Method: method, URL: &url.URL{Path: path}, Header: http.Header{}}

	// Authorization header: absent | shorter than 6 bytes | P6 ++ base64(cred) | P6 ++ undecodable tail
	form := vfChoice("hdr.form", 4)
	hdr, cred, decodable := "", "", false
	switch form {
	case 1:
		hdr = vfString("hdr.short", 5)
		vfAssume(hdr != "")
	case 2:
		p6 := vfStringN("hdr.p6", 6)
		cred = vfString("hdr.cred", 2*L+1)
		decodable = true
		hdr = p6 + vfB64Enc(cred)
	case 3:
		p6 := vfStringN("hdr.p6", 6)
		hdr = p6 + vfNonB64("hdr.tail", HL)
	}
	vfSetBasicAuth(decodable, cred)
	if form != 0 {
		r.Header["Authorization"] = []string{hdr}
	}
	w := &vfRW{hdr: http.Header{}}
	h.ServeHTTP(w, r)

	// oracle, written over the raw inputs
	fields := strings.Split(hdr, " ")
	basicOK := false
	if ab != nil && form == 2 && strings.EqualFold(hdr[:6], "Basic ") {
		basicOK = cred == ab.Username+":"+ab.Password && !strings.Contains(ab.Username, ":")
	}
	tokenOK := at != nil && at.Token != "" && len(fields) >= 2 && fields[1] == at.Token
	authorised := (ab == nil && at == nil) || basicOK || tokenOK
	passed := apiHit || (method == "OPTIONS" && len(w.hdr["Access-Control-Allow-Origin"]) > 0)

	if isAPI {
		vfAssert(!passed || authorised, "C17.sound/api-reached-only-with-configured-secret")
		vfAssert(passed || w.code == 401, "C17.sound/rejected-request-is-answered-401")
		vfAssert(!defHit, "C17.scope/api-path-never-goes-to-default-handler")
		// completeness: standard forms
		std := false
		if ab != nil && form == 2 && hdr[:6] == "Basic " && basicOK {
			std = true
		}
		// RFC 6750 token syntax has no spaces; a configured token containing one cannot be presented
		if at != nil && at.Token != "" && !strings.Contains(at.Token, " ") && form == 3 && hdr == "Bearer "+at.Token {
			std = true
		}
		if ab == nil && at == nil {
			std = true
		}
		vfAssert(!std || passed, "C17.complete/standard-credentials-always-pass")
	} else {
		vfAssert(!apiHit, "C17.scope/non-api-path-never-reaches-api-handler")
	}
	vfReach("end")
}

func VerifHarness_C17_chain4() { vfHarnessC17(4, 8) }
func VerifHarness_C17_chain6() { vfHarnessC17(6, 12) }
