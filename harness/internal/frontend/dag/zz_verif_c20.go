package dag

import (
	"errors"

	"github.com/ErdemOzgen/blackdagger/internal/client"
	"github.com/ErdemOzgen/blackdagger/internal/dag"
	"github.com/ErdemOzgen/blackdagger/internal/dag/scheduler"
	"github.com/ErdemOzgen/blackdagger/internal/frontend/gen/restapi/operations/dags"
	"github.com/ErdemOzgen/blackdagger/internal/persistence"
	"github.com/ErdemOzgen/blackdagger/internal/persistence/model"
)

// C20.guards / C20.edit: the real Handler.postAction over a recording fake client.Client.
// Mutating client calls are ghost events: 1 StartAsync, 2 Stop, 3 Retry, 4 UpdateStatus,
// 5 ToggleSuspend, 6 UpdateDAG, 7 Rename.

type vfClient struct {
	dagStatus  *client.DAGStatus
	byReq      *model.Status // status recorded for vfReqID
	reqID      string
	updated    *model.Status
	updatedDAG *dag.DAG
	startParam string
	startDAG   *dag.DAG
	retryID    string
}

var errVf = errors.New("fake client error")

func (c *vfClient) CreateDAG(id string) (string, error)  { return "", errVf }
func (c *vfClient) GetDAGSpec(id string) (string, error) { return "", errVf }
func (c *vfClient) Grep(pattern string) ([]*persistence.GrepResult, []string, error) {
	return nil, nil, errVf
}
func (c *vfClient) Rename(oldID, newID string) error { vfEvent("mut", 7, 0); return nil }
func (c *vfClient) Stop(workflow *dag.DAG) error     { vfEvent("mut", 2, 0); return nil }
func (c *vfClient) StartAsync(workflow *dag.DAG, opts client.StartOptions) {
	vfEvent("mut", 1, 0)
	c.startParam, c.startDAG = opts.Params, workflow
}
func (c *vfClient) Start(workflow *dag.DAG, opts client.StartOptions) error {
	vfEvent("mut", 1, 1)
	return nil
}
func (c *vfClient) Restart(workflow *dag.DAG, opts client.RestartOptions) error {
	vfEvent("mut", 8, 0)
	return nil
}
func (c *vfClient) Retry(workflow *dag.DAG, requestID string) error {
	vfEvent("mut", 3, 0)
	c.retryID = requestID
	return nil
}
func (c *vfClient) GetCurrentStatus(workflow *dag.DAG) (*model.Status, error) { return nil, errVf }
func (c *vfClient) GetStatusByRequestID(workflow *dag.DAG, requestID string) (*model.Status, error) {
	if requestID == c.reqID && c.byReq != nil {
		return c.byReq, nil
	}
	return nil, errVf
}
func (c *vfClient) GetLatestStatus(workflow *dag.DAG) (*model.Status, error)      { return nil, errVf }
func (c *vfClient) GetRecentHistory(workflow *dag.DAG, n int) []*model.StatusFile { return nil }
func (c *vfClient) UpdateStatus(workflow *dag.DAG, status *model.Status) error {
	vfEvent("mut", 4, 0)
	c.updated, c.updatedDAG = status, workflow
	return nil
}
func (c *vfClient) UpdateDAG(id string, spec string) error { vfEvent("mut", 6, 0); return nil }
func (c *vfClient) DeleteDAG(id, loc string) error         { vfEvent("mut", 9, 0); return nil }
func (c *vfClient) GetAllStatus() ([]*client.DAGStatus, []string, error) {
	return nil, nil, errVf
}
func (c *vfClient) GetAllStatusPagination(params dags.ListDagsParams) ([]*client.DAGStatus, *client.DagListPaginationSummaryResult, error) {
	return nil, nil, errVf
}
func (c *vfClient) GetStatus(dagLocation string) (*client.DAGStatus, error) {
	if c.dagStatus == nil {
		return nil, errVf
	}
	return c.dagStatus, nil
}
func (c *vfClient) IsSuspended(id string) bool { return false }
func (c *vfClient) ToggleSuspend(id string, suspend bool) error {
	vfEvent("mut", 5, 0)
	return nil
}
func (c *vfClient) GetTagList() ([]string, []string, error) { return nil, nil, errVf }

var vfActions = []string{"start", "stop", "retry", "suspend", "mark-success", "mark-failed", "save", "rename"}

func vfHarnessC20(nNodes int) {
	d := &dag.DAG{Name: "d", Location: "/dags/d.yaml"}
	st := scheduler.Status(vfRange("dagStatus", 0, 4))
	fc := &vfClient{reqID: "req-1"}
	fc.dagStatus = &client.DAGStatus{DAG: d, Status: &model.Status{Status: st, RequestID: vfString("liveReq", 6)}}
	// the recorded run addressed by request id "req-1": nNodes nodes with symbolic names (duplicates allowed)
	rec := &model.Status{RequestID: "req-1", Status: scheduler.Status(vfRange("recStatus", 0, 4))}
	before := make([]scheduler.NodeStatus, nNodes)
	names := make([]string, nNodes)
	for i := 0; i < nNodes; i++ {
		names[i] = vfString("node", 3)
		before[i] = scheduler.NodeStatus(vfRange("nodeStatus", 0, 5))
		rec.Nodes = append(rec.Nodes, &model.Node{Step: dag.Step{Name: names[i]}, Status: before[i], StatusText: before[i].String()})
	}
	fc.byReq = rec
	h := &Handler{client: fc}

	var action *string
	k := vfChoice("action", len(vfActions)+2)
	switch {
	case k < len(vfActions):
		a := vfActions[k]
		action = &a
	case k == len(vfActions):
		a := vfString("otherAction", 6)
		for _, known := range vfActions {
			vfAssume(a != known)
		}
		action = &a
	}
	body := dags.PostDagActionBody{Action: action}
	body.RequestID = vfString("requestID", 6)
	if vfChoice("reqKnown", 2) == 1 {
		body.RequestID = "req-1"
	}
	body.Step = vfString("step", 3)
	body.Value = vfString("value", 4)
	body.Params = vfString("params", 6)
	params := dags.PostDagActionParams{DagID: "d", Body: body}

	_, cerr := h.postAction(params)

	muts := vfCount("mut", -1)
	running := st == scheduler.StatusRunning
	refused := cerr != nil
	act := ""
	if action != nil {
		act = *action
	}
	if refused {
		vfAssert(muts == 0, "C20.guards/refused-action-changes-nothing")
	}
	switch act {
	case "start":
		if running {
			vfAssert(refused, "C20.guards/start-refused-while-running")
		} else {
			vfAssert(!refused && vfCount("mut", 1) == 1 && muts == 1, "C20.guards/accepted-start-starts-once")
			vfAssert(fc.startParam == body.Params && fc.startDAG == d, "C20.params/start-passes-parameters-unchanged")
		}
	case "stop":
		if !running {
			vfAssert(refused, "C20.guards/stop-refused-when-not-running")
		} else {
			vfAssert(!refused && vfCount("mut", 2) == 1 && muts == 1, "C20.guards/accepted-stop-stops-once")
		}
	case "retry":
		if body.RequestID == "" {
			vfAssert(refused, "C20.guards/retry-without-request-id-refused")
		} else {
			vfAssert(refused || (vfCount("mut", 3) == 1 && muts == 1 && fc.retryID == body.RequestID), "C20.guards/retry-addresses-the-given-run")
		}
	case "mark-success", "mark-failed":
		target := scheduler.NodeStatusSuccess
		if act == "mark-failed" {
			target = scheduler.NodeStatusError
		}
		found := false
		for i := 0; i < nNodes; i++ {
			if names[i] == body.Step {
				found = true
			}
		}
		if running || body.RequestID == "" || body.Step == "" || body.RequestID != "req-1" || !found {
			vfAssert(refused, "C20.guards/status-edit-refused-when-running-or-malformed")
		} else {
			vfAssert(!refused && vfCount("mut", 4) == 1 && muts == 1, "C20.edit/accepted-edit-updates-once")
			vfAssert(fc.updated == rec && fc.updatedDAG == d && fc.updated.RequestID == "req-1", "C20.edit/update-addresses-the-given-run")
			changed := 0
			for i := 0; i < nNodes; i++ {
				n := rec.Nodes[i]
				if n.Step.Name == body.Step && n.Status == target && n.StatusText == target.String() {
					if before[i] != target {
						changed++
					}
					continue
				}
				vfAssert(n.Status == before[i] && n.StatusText == before[i].String(), "C20.edit/other-steps-untouched")
			}
			editedOne := false
			for i := 0; i < nNodes; i++ {
				if names[i] == body.Step && rec.Nodes[i].Status == target {
					editedOne = true
				}
			}
			vfAssert(editedOne, "C20.edit/addressed-step-gets-the-target-state")
			vfAssert(changed <= 1, "C20.edit/at-most-one-step-changes")
		}
	case "suspend", "save", "rename":
		// state-independent actions: only the malformed cases are checked
		if act == "rename" && body.Value == "" {
			vfAssert(refused, "C20.guards/rename-without-name-refused")
		}
	default:
		vfAssert(refused, "C20.guards/unknown-or-missing-action-refused")
	}
	vfReach("end")
}

func VerifHarness_C20_guards2() { vfHarnessC20(2) }
func VerifHarness_C20_guards3() { vfHarnessC20(3) }
