package client

import (
	"os"
	"strings"
	"time"

	"github.com/ErdemOzgen/blackdagger/internal/logger"
	"github.com/ErdemOzgen/blackdagger/internal/persistence"
	"github.com/ErdemOzgen/blackdagger/internal/persistence/local"
	"github.com/ErdemOzgen/blackdagger/internal/persistence/model"
)

// C18: create / save / rename / delete of DAG definitions through the real client and the
// real dagStoreImpl over the file-system model; the history store is a recording fake
// (its own behaviour is C06's subject).

const (
	vfTextA   = "steps:\n  - name: a\n    command: echo a\n"
	vfTextB   = "steps:\n  - name: b\n    command: echo b\n"
	vfTextNew = "steps:\n  - name: fresh\n    command: echo new\n"
	vfTextBad = "steps: ["
)

var vfNamesC18 = []string{"a", "b", "a b", "a.b", "ab"}

type vfHist struct{}

func (vfHist) Open(dagFile string, t time.Time, requestID string) error { return nil }
func (vfHist) Write(status *model.Status) error                         { return nil }
func (vfHist) Close() error                                             { return nil }
func (vfHist) Update(dagFile, requestID string, st *model.Status) error { return nil }
func (vfHist) ReadStatusRecent(dagFile string, n int) []*model.StatusFile {
	return nil
}
func (vfHist) ReadStatusToday(dagFile string) (*model.Status, error) { return nil, errVfC18 }
func (vfHist) FindByRequestID(dagFile string, requestID string) (*model.StatusFile, error) {
	return nil, errVfC18
}
func (vfHist) RemoveAll(dagFile string) error {
	vfHistCalls = append(vfHistCalls, "removeall:"+dagFile)
	return nil
}
func (vfHist) RemoveOld(dagFile string, retentionDays int) error { return nil }
func (vfHist) Rename(oldName, newName string) error {
	vfHistCalls = append(vfHistCalls, "rename:"+oldName+"->"+newName)
	return nil
}

var (
	errVfC18    = os.ErrInvalid
	vfHistCalls []string
)

type vfStores struct{ ds persistence.DAGStore }

func (s vfStores) HistoryStore() persistence.HistoryStore { return vfHist{} }
func (s vfStores) DAGStore() persistence.DAGStore         { return s.ds }
func (s vfStores) FlagStore() persistence.FlagStore       { return nil }

func vfSetupC18() (string, *client, persistence.DAGStore) {
	dir := "/dags"
	if vfNative() {
		dir, _ = os.MkdirTemp("", "vfc18")
	} else {
		_ = os.MkdirAll(dir, 0755)
	}
	vfHistCalls = nil
	ds := local.VfNewDAGStore(dir)
	cl := &client{dataStore: vfStores{ds}, logger: logger.NewLogger(logger.NewLoggerArgs{Quiet: true})}
	return dir, cl, ds
}

func vfRead(path string) (string, bool) {
	b, err := os.ReadFile(path)
	if err != nil {
		return "", false
	}
	return string(b), true
}

func vfSpec(ds persistence.DAGStore, name string) (string, bool) {
	t, err := ds.GetSpec(name)
	return t, err == nil
}

// C18.nooverwrite: creating or renaming onto an existing DAG never overwrites it.
func VerifHarness_C18_nooverwrite() {
	dir, cl, ds := vfSetupC18()
	if vfNative() {
		defer os.RemoveAll(dir)
	}
	ai := vfChoice("a", len(vfNamesC18))
	bi := vfChoice("b", len(vfNamesC18))
	vfAssume(ai != bi)
	a, b := vfNamesC18[ai], vfNamesC18[bi]
	_, e0 := ds.Create(a, []byte(vfTextA))
	vfAssume(e0 == nil)
	bExists := vfChoice("bExists", 2) == 1
	if bExists {
		_, e1 := ds.Create(b, []byte(vfTextB))
		vfAssume(e1 == nil)
	}
	var err error
	op := vfChoice("op", 2)
	if op == 0 {
		_, err = ds.Create(b, []byte(vfTextNew))
	} else {
		err = cl.Rename(a, b)
	}
	got, ok := vfSpec(ds, b)
	if bExists {
		if op == 1 {
			vfClass("rename-onto-existing-dag")
		}
		vfAssert(ok && got == vfTextB, "C18.nooverwrite/existing-target-keeps-its-definition")
		vfAssert(err != nil, "C18.nooverwrite/operation-onto-existing-dag-is-refused")
		ga, oka := vfSpec(ds, a)
		vfAssert(oka && ga == vfTextA, "C18.nooverwrite/refused-operation-keeps-the-source")
		vfAssert(len(vfHistCalls) == 0, "C18.nooverwrite/refused-operation-leaves-history-alone")
	} else if op == 0 {
		vfAssert(err == nil && ok && got == vfTextNew, "C18.create/new-dag-holds-the-given-text")
	} else if err != nil {
		// a refused rename (e.g. a name the loader cannot resolve) must change nothing
		if strings.Contains(b, ".") {
			vfClass("new-name-contains-a-dot")
		}
		ga, oka := vfSpec(ds, a)
		vfAssert(oka && ga == vfTextA && !ok, "C18.rename/refused-rename-changes-nothing")
		vfAssert(len(vfHistCalls) == 0, "C18.rename/refused-rename-leaves-history-alone")
	} else {
		vfAssert(ok && got == vfTextA, "C18.rename/definition-moves-to-the-new-name")
		_, still := vfSpec(ds, a)
		vfAssert(!still, "C18.rename/old-name-is-gone")
		vfAssert(len(vfHistCalls) == 1 && len(vfHistCalls[0]) > 7 && vfHistCalls[0][:7] == "rename:", "C18.rename/history-is-carried-to-the-new-name")
	}
	vfReach("end")
}

// C18.save: a save replaces the definition only with a valid text, all-or-nothing, also
// under a kill at any point of the save.
func VerifHarness_C18_save() {
	dir, cl, ds := vfSetupC18()
	if vfNative() {
		defer os.RemoveAll(dir)
	}
	a := vfNamesC18[vfChoice("a", len(vfNamesC18))]
	exists := vfChoice("exists", 2) == 1
	if exists {
		_, e0 := ds.Create(a, []byte(vfTextA))
		vfAssume(e0 == nil)
	}
	text := []string{vfTextNew, vfTextBad, ""}[vfChoice("text", 3)]
	var err error
	crashed := vfCrashable(func() { err = cl.UpdateDAG(a, text) })
	got, ok := vfSpec(ds, a)
	switch {
	case crashed:
		vfClass("kill-during-save")
		if exists {
			vfAssert(ok && (got == vfTextA || got == text), "C18.save/kill-during-save-leaves-old-or-new-text-complete")
		}
	case !exists:
		vfAssert(err != nil && !ok, "C18.save/saving-a-missing-dag-is-refused")
	case text == vfTextBad:
		vfAssert(err != nil && ok && got == vfTextA, "C18.save/rejected-save-leaves-the-definition-untouched")
	default:
		// vfTextNew, or the empty document (which the loader accepts as an empty definition)
		vfAssert(err == nil && ok && got == text, "C18.save/accepted-save-stores-the-new-text")
	}
	// a later complete save (also after a killed one) stores exactly its text
	if exists && vfChoice("secondSave", 2) == 1 {
		second := []string{vfTextB, ""}[vfChoice("secondText", 2)]
		err2 := cl.UpdateDAG(a, second)
		got2, ok2 := vfSpec(ds, a)
		if crashed {
			vfClass("save-after-a-killed-save")
		}
		vfAssert(err2 == nil && ok2 && got2 == second, "C18.save/later-save-stores-exactly-its-text")
	}
	vfReach("end")
}

// C18.delete: deleting removes the definition and its history and nothing of another DAG.
func VerifHarness_C18_delete() {
	dir, cl, ds := vfSetupC18()
	if vfNative() {
		defer os.RemoveAll(dir)
	}
	ai := vfChoice("a", len(vfNamesC18))
	bi := vfChoice("b", len(vfNamesC18))
	vfAssume(ai != bi)
	a, b := vfNamesC18[ai], vfNamesC18[bi]
	_, e0 := ds.Create(a, []byte(vfTextA))
	_, e1 := ds.Create(b, []byte(vfTextB))
	vfAssume(e0 == nil && e1 == nil)
	d, ferr := ds.Find(a)
	vfAssume(ferr == nil)
	err := cl.DeleteDAG(a, d.Location)
	_, still := vfSpec(ds, a)
	gb, okb := vfSpec(ds, b)
	vfAssert(err == nil && !still, "C18.delete/definition-is-removed")
	vfAssert(okb && gb == vfTextB, "C18.delete/other-dags-are-untouched")
	vfAssert(len(vfHistCalls) == 1 && vfHistCalls[0] == "removeall:"+d.Location, "C18.delete/history-of-exactly-that-dag-is-removed")
	vfReach("end")
}
