package client

import (
	"errors"
	"time"

	"github.com/ErdemOzgen/blackdagger/internal/dag"
	"github.com/ErdemOzgen/blackdagger/internal/dag/scheduler"
	"github.com/ErdemOzgen/blackdagger/internal/logger"
	"github.com/ErdemOzgen/blackdagger/internal/persistence"
	"github.com/ErdemOzgen/blackdagger/internal/persistence/model"
)

// C08.latest: the status reported for a DAG is the live one while its run's socket
// answers, otherwise the persisted one with "running" corrected to "failed"; no data
// means "not started" without error. Real client.GetLatestStatus / GetStatusByRequestID
// over a recording history fake and the socket model.

type vfHist08 struct {
	today    *model.Status
	todayErr error
	byID     *model.StatusFile
}

func (h *vfHist08) Open(dagFile string, t time.Time, requestID string) error { return nil }
func (h *vfHist08) Write(status *model.Status) error                         { return nil }
func (h *vfHist08) Close() error                                             { return nil }
func (h *vfHist08) Update(dagFile, requestID string, st *model.Status) error { return nil }
func (h *vfHist08) ReadStatusRecent(dagFile string, n int) []*model.StatusFile {
	return nil
}
func (h *vfHist08) ReadStatusToday(dagFile string) (*model.Status, error) {
	return h.today, h.todayErr
}
func (h *vfHist08) FindByRequestID(dagFile string, requestID string) (*model.StatusFile, error) {
	if h.byID != nil && h.byID.Status.RequestID == requestID {
		return h.byID, nil
	}
	return nil, persistence.ErrRequestIDNotFound
}
func (h *vfHist08) RemoveAll(dagFile string) error                    { return nil }
func (h *vfHist08) RemoveOld(dagFile string, retentionDays int) error { return nil }
func (h *vfHist08) Rename(oldName, newName string) error              { return nil }

type vfStores08 struct{ h *vfHist08 }

func (s vfStores08) HistoryStore() persistence.HistoryStore { return s.h }
func (s vfStores08) DAGStore() persistence.DAGStore         { return nil }
func (s vfStores08) FlagStore() persistence.FlagStore       { return nil }

var errVfIO = errors.New("unreadable history")

func VerifHarness_C08_latest() {
	d := &dag.DAG{Name: "d", Location: "/dags/d.yaml"}
	sockState := vfChoice("socket", 3) // 0 no socket file, 1 live, 2 stale socket file of a killed agent
	live := sockState == 1
	liveSt := &model.Status{Name: "d", RequestID: "live-run", Status: scheduler.StatusRunning, StatusText: scheduler.StatusRunning.String()}
	if sockState == 2 {
		vfSockStale(d.SockAddr())
	} else {
		vfSock(d.SockAddr(), live, false, vfJSON(liveSt))
	}
	h := &vfHist08{}
	pst := scheduler.Status(vfRange("persisted", 0, 4))
	persisted := vfChoice("history", 4) // 0 latest status, 1 none today, 2 none at all, 3 unreadable
	switch persisted {
	case 0:
		h.today = &model.Status{Name: "d", RequestID: "old-run", Status: pst, StatusText: pst.String()}
	case 1:
		h.todayErr = persistence.ErrNoStatusDataToday
	case 2:
		h.todayErr = persistence.ErrNoStatusData
	case 3:
		h.todayErr = errVfIO
	}
	cl := &client{dataStore: vfStores08{h}, logger: logger.NewLogger(logger.NewLoggerArgs{Quiet: true})}
	st, err := cl.GetLatestStatus(d)
	switch {
	case live:
		vfAssert(err == nil && st != nil && st.RequestID == "live-run" && st.Status == scheduler.StatusRunning, "C08.latest/live-run-is-reported-live")
	case persisted == 0:
		vfAssert(err == nil && st != nil && st.RequestID == "old-run", "C08.latest/ended-run-reports-its-persisted-status")
		vfAssert(st.Status != scheduler.StatusRunning, "C08.latest/dead-run-is-never-reported-running")
		if pst == scheduler.StatusRunning {
			vfAssert(st.Status == scheduler.StatusError && st.StatusText == scheduler.StatusError.String(), "C08.latest/run-cut-short-counts-as-failed")
		} else {
			vfAssert(st.Status == pst, "C08.latest/final-status-is-reported-unchanged")
		}
	case persisted == 1 || persisted == 2:
		vfAssert(err == nil && st != nil && st.Status == scheduler.StatusNone, "C08.latest/no-history-means-not-started-without-error")
	default:
		vfAssert(st != nil && st.Status != scheduler.StatusRunning && st.Status != scheduler.StatusSuccess, "C08.latest/unreadable-history-is-not-reported-running-or-succeeded")
	}
	vfReach("end")
}

// C08.byid: looking a run up by request id corrects "running" unless that very run is live.
func VerifHarness_C08_byid() {
	d := &dag.DAG{Name: "d", Location: "/dags/d.yaml"}
	sockState := vfChoice("socket", 3) // 0 no socket file, 1 live, 2 stale socket file of a killed agent
	live := sockState == 1
	same := vfChoice("sameRun", 2) == 1
	liveID := "other-run"
	if same {
		liveID = "asked-run"
	}
	liveSt := &model.Status{Name: "d", RequestID: liveID, Status: scheduler.StatusRunning}
	if sockState == 2 {
		vfSockStale(d.SockAddr())
	} else {
		vfSock(d.SockAddr(), live, false, vfJSON(liveSt))
	}
	pst := scheduler.Status(vfRange("persisted", 0, 4))
	h := &vfHist08{byID: &model.StatusFile{File: "f", Status: &model.Status{Name: "d", RequestID: "asked-run", Status: pst, StatusText: pst.String()}}}
	cl := &client{dataStore: vfStores08{h}, logger: logger.NewLogger(logger.NewLoggerArgs{Quiet: true})}
	st, err := cl.GetStatusByRequestID(d, "asked-run")
	vfAssert(err == nil && st != nil && st.RequestID == "asked-run", "C08.byid/lookup-returns-the-asked-run")
	if live && same {
		vfAssert(st.Status == pst, "C08.byid/live-run-keeps-its-recorded-status")
	} else {
		vfAssert(st.Status != scheduler.StatusRunning, "C08.byid/dead-run-is-never-reported-running")
		if pst != scheduler.StatusRunning {
			vfAssert(st.Status == pst, "C08.byid/final-status-is-reported-unchanged")
		}
	}
	vfReach("end")
}
