package client

// VfEscapeArg exposes the unexported escapeArg to the C20.params harness (overlay only).
func VfEscapeArg(s string) string { return escapeArg(s) }
