package scheduler

import (
	"errors"
	"time"

	"github.com/ErdemOzgen/blackdagger/internal/client"
	"github.com/ErdemOzgen/blackdagger/internal/dag"
	dagscheduler "github.com/ErdemOzgen/blackdagger/internal/dag/scheduler"
	"github.com/ErdemOzgen/blackdagger/internal/frontend/gen/restapi/operations/dags"
	"github.com/ErdemOzgen/blackdagger/internal/logger"
	"github.com/ErdemOzgen/blackdagger/internal/persistence"
	"github.com/ErdemOzgen/blackdagger/internal/persistence/model"
	"github.com/ErdemOzgen/blackdagger/internal/util"
)

// C09.tick: one tick T of the daemon. The real entryReaderImpl.Read, Scheduler.run,
// entry.Invoke and jobImpl.{Start,Stop,Restart} run over a recording fake client. Cron
// schedules are replaced by the contract of Next over a per-schedule match bit:
// Next(T-1s) = T if the schedule matches minute T, otherwise a later minute.

var vfT0 = time.Unix(1700000040-1700000040%60, 0).UTC() // a minute-aligned instant

type vfSched struct {
	match bool
	later int // minutes after T of the next match when T does not match (>= 1)
}

func (s vfSched) Next(t time.Time) time.Time {
	if s.match {
		return vfT0
	}
	return vfT0.Add(time.Duration(s.later) * time.Minute)
}

type vfDaemonClient struct {
	status    map[string]*model.Status
	suspended map[string]bool
}

var errVfD = errors.New("fake client")

func vfDagIdx(d *dag.DAG) int {
	if d.Name == "d1" {
		return 1
	}
	return 0
}

func (c *vfDaemonClient) CreateDAG(id string) (string, error)  { return "", errVfD }
func (c *vfDaemonClient) GetDAGSpec(id string) (string, error) { return "", errVfD }
func (c *vfDaemonClient) Grep(pattern string) ([]*persistence.GrepResult, []string, error) {
	return nil, nil, errVfD
}
func (c *vfDaemonClient) Rename(oldID, newID string) error { return errVfD }
func (c *vfDaemonClient) Stop(w *dag.DAG) error {
	vfEvent("stop", vfDagIdx(w), 0)
	return nil
}
func (c *vfDaemonClient) StartAsync(w *dag.DAG, opts client.StartOptions) {}
func (c *vfDaemonClient) Start(w *dag.DAG, opts client.StartOptions) error {
	vfEvent("start", vfDagIdx(w), 0)
	return nil
}
func (c *vfDaemonClient) Restart(w *dag.DAG, opts client.RestartOptions) error {
	vfEvent("restart", vfDagIdx(w), 0)
	return nil
}
func (c *vfDaemonClient) Retry(w *dag.DAG, requestID string) error { return errVfD }
func (c *vfDaemonClient) GetCurrentStatus(w *dag.DAG) (*model.Status, error) {
	return nil, errVfD
}
func (c *vfDaemonClient) GetStatusByRequestID(w *dag.DAG, requestID string) (*model.Status, error) {
	return nil, errVfD
}
func (c *vfDaemonClient) GetLatestStatus(w *dag.DAG) (*model.Status, error) {
	return c.status[w.Name], nil
}
func (c *vfDaemonClient) GetRecentHistory(w *dag.DAG, n int) []*model.StatusFile { return nil }
func (c *vfDaemonClient) UpdateStatus(w *dag.DAG, status *model.Status) error    { return errVfD }
func (c *vfDaemonClient) UpdateDAG(id string, spec string) error                 { return errVfD }
func (c *vfDaemonClient) DeleteDAG(id, loc string) error                         { return errVfD }
func (c *vfDaemonClient) GetAllStatus() ([]*client.DAGStatus, []string, error) {
	return nil, nil, errVfD
}
func (c *vfDaemonClient) GetAllStatusPagination(params dags.ListDagsParams) ([]*client.DAGStatus, *client.DagListPaginationSummaryResult, error) {
	return nil, nil, errVfD
}
func (c *vfDaemonClient) GetStatus(dagLocation string) (*client.DAGStatus, error) {
	return nil, errVfD
}
func (c *vfDaemonClient) IsSuspended(id string) bool                  { return c.suspended[id] }
func (c *vfDaemonClient) ToggleSuspend(id string, suspend bool) error { return errVfD }
func (c *vfDaemonClient) GetTagList() ([]string, []string, error)     { return nil, nil, errVfD }

// latest-run relation to the tick minute: 0 never run, 1 earlier minute, 2 the minute
// before at :59, 3 same minute at :00, 4 same minute at :59, 5 a later minute
func vfStartedAt(rel int) string {
	switch rel {
	case 1:
		return util.FormatTime(vfT0.Add(-90 * time.Minute))
	case 2:
		return util.FormatTime(vfT0.Add(-time.Second))
	case 3:
		return util.FormatTime(vfT0)
	case 4:
		return util.FormatTime(vfT0.Add(59 * time.Second))
	case 5:
		return util.FormatTime(vfT0.Add(3 * time.Minute))
	}
	return "-"
}

var vfLaterMenu = true // also vary how far away the next match of a non-matching schedule is
var vfRelMenu = 6      // latest-run position classes explored

type vfDagCfg struct {
	start, stop, restart []bool // match bits per schedule
	suspended            bool
	status               dagscheduler.Status
	rel                  int
}

func vfMkScheds(tag string, n int, bits *[]bool) []dag.Schedule {
	var out []dag.Schedule
	for i := 0; i < n; i++ {
		m := vfBool(tag + ".match")
		*bits = append(*bits, m)
		later := 1
		if vfLaterMenu {
			later = 1 + vfChoice(tag+".later", 2)
		}
		out = append(out, dag.Schedule{Expression: tag, Parsed: vfSched{match: m, later: later}})
	}
	return out
}

func vfHarnessC09Tick(nDags, maxStart int) {
	lg := logger.NewLogger(logger.NewLoggerArgs{Quiet: true})
	fc := &vfDaemonClient{status: map[string]*model.Status{}, suspended: map[string]bool{}}
	er := &entryReaderImpl{dags: map[string]*dag.DAG{}, logger: lg, client: fc, jobCreator: jobCreatorImpl{Client: fc}}
	cfgs := make([]vfDagCfg, nDags)
	names := []string{"d0", "d1"}
	for i := 0; i < nDags; i++ {
		c := &cfgs[i]
		d := &dag.DAG{Name: names[i], Location: "/dags/" + names[i] + ".yaml"}
		d.Schedule = vfMkScheds("start", vfChoice("nstart", maxStart+1), &c.start)
		d.StopSchedule = vfMkScheds("stop", vfChoice("nstop", 2), &c.stop)
		d.RestartSchedule = vfMkScheds("restart", vfChoice("nrestart", 2), &c.restart)
		c.suspended = vfBool("suspended")
		c.status = dagscheduler.Status(vfRange("status", 0, 4))
		c.rel = vfRelOf(vfChoice("lastRun", vfRelMenu))
		fc.suspended[names[i]] = c.suspended
		fc.status[names[i]] = &model.Status{Name: names[i], Status: c.status, StartedAt: vfStartedAt(c.rel)}
		er.dags[names[i]+".yaml"] = d
	}
	s := newScheduler(newSchedulerArgs{EntryReader: er, Logger: lg})
	setFixedTime(vfT0)
	s.run(vfT0)
	// wait for the job goroutines
	if vfNative() {
		time.Sleep(150 * time.Millisecond)
	}
	for vfLiveThreads() > 0 {
		time.Sleep(time.Millisecond)
	}
	for i := 0; i < nDags; i++ {
		c := cfgs[i]
		anyStart, nStartMatch, anyStop, nRestart := false, 0, false, 0
		for _, m := range c.start {
			if m {
				anyStart = true
				nStartMatch++
			}
		}
		for _, m := range c.stop {
			if m {
				anyStop = true
			}
		}
		for _, m := range c.restart {
			if m {
				nRestart++
			}
		}
		running := c.status == dagscheduler.StatusRunning
		// most recent run started in or after minute T
		startedInOrAfter := c.rel >= 3
		wantStart := anyStart && !c.suspended && !running && !startedInOrAfter
		starts := vfCount("start", i)
		if wantStart {
			vfAssert(starts >= 1, "C09.tick/scheduled-minute-is-not-missed")
			if nStartMatch > 1 {
				vfClass("two-start-schedules-match-the-same-minute")
			}
			vfAssert(starts <= 1, "C09.tick/scheduled-minute-is-not-run-twice")
		} else {
			vfAssert(starts == 0, "C09.tick/no-start-unless-scheduled-unsuspended-idle-and-not-yet-run")
		}
		stops := vfCount("stop", i)
		if anyStop && !c.suspended && running {
			vfAssert(stops >= 1, "C09.tick/stop-schedule-stops-a-running-dag")
		} else {
			vfAssert(stops == 0, "C09.tick/stop-acts-only-on-running-dags")
		}
		restarts := vfCount("restart", i)
		if c.suspended {
			vfAssert(restarts == 0, "C09.tick/suspended-dag-is-not-restarted")
		} else {
			vfAssert(restarts == nRestart, "C09.tick/restart-issued-at-each-matching-minute")
		}
	}
	vfReach("end")
}

// with the reduced menu of 3 classes: never run, previous minute :59, same minute :00
func vfRelOf(k int) int {
	if vfRelMenu == 3 {
		return []int{0, 2, 3}[k]
	}
	return k
}

func VerifHarness_C09_tick1() { vfHarnessC09Tick(1, 2) }
func VerifHarness_C09_tick2() {
	vfLaterMenu, vfRelMenu = false, 3
	vfHarnessC09Tick(2, 1)
}

// C09.ticks: the real Scheduler.start loop over a scripted clock. Each tick's processing
// may end late by an amount from a menu (late and bunched ticks); the sequence of minutes
// handed to run must be consecutive: none skipped, none repeated.
type vfTickReader struct {
	s     *Scheduler
	ticks []time.Time
	k     int
	wait  time.Duration // real time the native loop spends in its timer
}

var vfLate = []time.Duration{0, 20 * time.Second, 70 * time.Second, 200 * time.Second}

func (r *vfTickReader) Start(done chan any) {}
func (r *vfTickReader) Read(now time.Time) ([]*entry, error) {
	tick := now.Add(time.Second) // run() hands tick - 1s to Read
	r.ticks = append(r.ticks, tick)
	vfEvent("tick", len(r.ticks), 0)
	// the wall clock when this tick's work ends
	late := vfLate[vfChoice("late", len(vfLate))]
	setFixedTime(tick.Add(late))
	// natively the loop then waits on a real timer for the rest of the minute: paths that
	// would wait more than a minute in total are explored but not replayed as samples
	if late < time.Minute && len(r.ticks) < r.k {
		r.wait += time.Minute - late
		if r.wait > time.Minute {
			vfNoSample()
		}
	}
	if len(r.ticks) == r.k {
		r.s.Stop()
	}
	return nil, nil
}

func vfHarnessC09Ticks(k int) {
	lg := logger.NewLogger(logger.NewLoggerArgs{Quiet: true})
	r := &vfTickReader{k: k}
	s := newScheduler(newSchedulerArgs{EntryReader: r, Logger: lg})
	r.s = s
	start := vfT0.Add(time.Duration(vfChoice("startSecond", 3)) * 25 * time.Second) // daemon started at :00, :25 or :50
	setFixedTime(start)
	s.start()
	vfAssert(len(r.ticks) == k, "C09.ticks/loop-ends-when-stopped")
	for i, t := range r.ticks {
		vfAssert(t.Equal(vfT0.Add(time.Duration(i)*time.Minute)), "C09.ticks/minutes-are-consecutive-none-skipped-none-repeated")
	}
	vfReach("end")
}

func VerifHarness_C09_ticks3() { vfHarnessC09Ticks(3) }
func VerifHarness_C09_ticks4() { vfHarnessC09Ticks(4) }
