package local

import (
	"time"

	"github.com/ErdemOzgen/blackdagger/internal/dag"
	"github.com/ErdemOzgen/blackdagger/internal/persistence"
	"github.com/ErdemOzgen/blackdagger/internal/persistence/filecache"
)

// VfNewDAGStore builds the real DAG store without starting the cache-eviction goroutine (overlay only).
func VfNewDAGStore(dir string) persistence.DAGStore {
	return &dagStoreImpl{dir: dir, metaCache: filecache.New[*dag.DAG](0, time.Hour*24)}
}
