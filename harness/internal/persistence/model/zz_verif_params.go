package model

import (
	"os"
	"strconv"
	"strings"

	"github.com/ErdemOzgen/blackdagger/internal/dag"
)

// C11.params / C10.params: parameters written in the documented syntax (bare words,
// "quoted values", NAME=value, NAME="quoted value") reach the steps as $1..$n / $NAME with
// exactly the given values, and the recorded form of a run's parameters (the real
// model.Params of this package) parses back to the same values, which is what retry and
// restart rely on. The real builder of package dag runs in evaluating mode
// (dag.VfBuildParams); the regular expression of parseParamValue is decided exactly
// (-regex-exact).

type vfParam struct {
	name   string
	value  string
	quoted bool
	space  bool // value contains white space
	quote  bool // value contains a double quote
}

func vfIsSpace(c byte) bool {
	return c == ' ' || c == '\t' || c == '\n' || c == '\r' || c == '\f' || c == '\v'
}

// one parameter of the documented syntax; returns the spec and its source text
func vfParamSpec(tag string, maxLen int, nameChar string) (vfParam, string) {
	var p vfParam
	if vfChoice(tag+".named", 2) == 1 {
		p.name = nameChar
	}
	p.quoted = vfChoice(tag+".quoted", 2) == 1
	lo := 0
	if !p.quoted {
		lo = 1 // a bare word is not empty
	}
	n := lo + vfChoice(tag+".len", maxLen+1-lo)
	p.value = vfStringN(tag+".value", n)
	text := ""
	for i := 0; i < n; i++ {
		c := p.value[i]
		// outside the claim: command substitution, variable expansion (separate features), NUL, backslash escapes
		vfAssume(c != '`' && c != '$' && c != 0 && c != '\\')
		if vfIsSpace(c) {
			p.space = true
		}
		if c == '"' {
			p.quote = true
		}
		if p.quoted {
			if c == '"' {
				text += `\"`
			} else {
				text += string(rune(c))
			}
		} else {
			vfAssume(!vfIsSpace(c) && c != '"')
			if p.name == "" && i > 0 {
				vfAssume(c != '=') // word=word is the NAME=value form (a leading '=' has no name before it)
			}
			text += string(rune(c))
		}
	}
	if p.quoted {
		text = `"` + text + `"`
	}
	if p.name != "" {
		text = p.name + "=" + text
	}
	return p, text
}

func vfParamsHarness(nParams, maxLen int, roundTrip bool) {
	names := []string{"P", "Q"}
	var specs []vfParam
	var texts []string
	for i := 0; i < nParams; i++ {
		p, t := vfParamSpec("p"+strconv.Itoa(i), maxLen, names[i])
		specs = append(specs, p)
		texts = append(texts, t)
	}
	src := strings.Join(texts, " ")
	for i := range specs {
		os.Unsetenv(strconv.Itoa(i + 1))
		os.Unsetenv(names[i])
	}
	params, err := dag.VfBuildParams(src, "")
	vfAssert(err == nil, "C11.params/documented-syntax-is-accepted")
	if err != nil {
		vfReach("end")
		return
	}
	vfAssert(len(params) == nParams, "C11.params/one-parameter-per-written-parameter")
	if len(params) == nParams {
		for i, p := range specs {
			want := p.value
			if p.name != "" {
				want = p.name + "=" + p.value
				vfAssert(os.Getenv(p.name) == p.value, "C11.params/named-parameter-has-exactly-the-given-value")
			}
			vfAssert(os.Getenv(strconv.Itoa(i+1)) == want, "C11.params/positional-parameter-has-exactly-the-given-value")
		}
	}
	if !roundTrip {
		vfReach("end")
		return
	}
	// retry / restart: the recorded parameter string (model.Params) is parsed again
	recorded := Params(params)
	for _, p := range specs {
		if p.space {
			vfClass("value-contains-whitespace")
		} else if p.quote {
			vfClass("value-contains-a-quote")
		} else if p.value == "" {
			vfClass("empty-value")
		}
	}
	params2, err2 := dag.VfBuildParams(src, recorded)
	same := err2 == nil && len(params2) == len(params)
	if same {
		for i := range params {
			if params2[i] != params[i] {
				same = false
			}
		}
	}
	vfAssert(same, "C10.params/recorded-parameters-parse-back-to-the-same-values")
	vfReach("end")
}

func VerifHarness_C11_paramsL1()  { vfParamsHarness(1, 1, false) }
func VerifHarness_C11_paramsL2()  { vfParamsHarness(1, 2, false) }
func VerifHarness_C11_paramsL3()  { vfParamsHarness(1, 3, false) }
func VerifHarness_C10_paramsL1()  { vfParamsHarness(1, 1, true) }
func VerifHarness_C10_paramsL2()  { vfParamsHarness(1, 2, true) }
func VerifHarness_C10_paramsL3()  { vfParamsHarness(1, 3, true) }
func VerifHarness_C11_params2x1() { vfParamsHarness(2, 1, false) }
func VerifHarness_C10_params2x1() { vfParamsHarness(2, 1, true) }
