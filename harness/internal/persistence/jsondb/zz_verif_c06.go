package jsondb

import (
	"errors"
	"os"
	"time"

	"github.com/ErdemOzgen/blackdagger/internal/dag/scheduler"
	"github.com/ErdemOzgen/blackdagger/internal/persistence"
	"github.com/ErdemOzgen/blackdagger/internal/persistence/filecache"
	"github.com/ErdemOzgen/blackdagger/internal/persistence/model"
)

// C06 / C07: the real JSONDB over the file-system model. Run start instants come from a
// menu of representative positions relative to the first run (same millisecond, same
// second, next second, next minute, next day); DAG names come from a menu with spaces,
// dots, glob metacharacters, shared prefixes, the compaction suffix and a timestamp-shaped
// name. Status payloads are opaque JSON tokens.

var vfBase = time.Date(2026, 1, 2, 3, 4, 5, 100*1000000, time.UTC)

var vfOffsets = []time.Duration{0, time.Millisecond, 800 * time.Millisecond, time.Second, time.Minute, 24 * time.Hour}

var vfDagNames = []string{"a", "ab", "a b", "a.b", "a_c", "[a]", "a*", "20260102.03:04:05"}

func vfNewDB() (*JSONDB, string) {
	loc := "/data"
	if vfNative() {
		loc, _ = os.MkdirTemp("", "vfc06")
	}
	return &JSONDB{location: loc, cache: filecache.New[*model.Status](300, 3*time.Hour)}, loc
}

func vfStatus(id string, st scheduler.Status, marker string) *model.Status {
	return &model.Status{Name: "d", RequestID: id, Status: st, StatusText: st.String(), Params: marker}
}

type vfRunRec struct {
	id     string
	t      time.Time
	last   string // marker of the last status written
	closed bool
}

// records one run through the real API: Open, 1..2 Writes, optional Close
func vfRecordRun(db *JSONDB, dagFile string, id string, t time.Time, writes int, closeIt bool) vfRunRec {
	rec := vfRunRec{id: id, t: t}
	err := db.Open(dagFile, t, id)
	vfAssume(err == nil)
	for w := 1; w <= writes; w++ {
		rec.last = id + "/w" + string(rune('0'+w))
		err = db.Write(vfStatus(id, scheduler.StatusRunning, rec.last))
		vfAssume(err == nil)
	}
	if closeIt {
		err = db.Close()
		vfAssume(err == nil)
		rec.closed = true
	}
	return rec
}

var vfIDs = []string{"req-one-1", "req-two-2", "req-thr-3"}

// C06.newest: latest-status and recent-history queries follow start time, newest first.
func vfHarnessC06Newest(nRuns int, names []string) {
	db, loc := vfNewDB()
	if vfNative() {
		defer os.RemoveAll(loc)
	}
	dagFile := "/dags/" + names[vfChoice("name", len(names))] + ".yaml"
	var runs []vfRunRec
	for i := 0; i < nRuns; i++ {
		off := vfOffsets[0]
		if i > 0 {
			off = vfOffsets[vfChoice("offset", len(vfOffsets))]
		}
		// later runs are recorded later but may START earlier or later than the first
		t := vfBase.Add(off)
		if i == 2 {
			t = vfBase.Add(-off)
		}
		runs = append(runs, vfRecordRun(db, dagFile, vfIDs[i], t, 1+vfChoice("writes", 2), true))
	}
	// oracle: newest start time (ties are ambiguous and accepted either way)
	newest, tie := 0, false
	for i := 1; i < len(runs); i++ {
		if runs[i].t.After(runs[newest].t) {
			newest, tie = i, false
		} else if runs[i].t.Equal(runs[newest].t) {
			tie = true
		}
	}
	fresh, _ := vfNewDBAt(loc)
	st, err := fresh.ReadStatusToday(dagFile)
	vfAssert(err == nil && st != nil, "C06.newest/latest-status-query-answers")
	if err == nil && st != nil && !tie {
		if runs[newest].t.Truncate(time.Second).Equal(runs[1-min(newest, 1)].t.Truncate(time.Second)) {
			vfClass("two-runs-started-in-the-same-second")
		}
		vfAssert(st.RequestID == runs[newest].id, "C06.newest/latest-status-is-of-the-most-recently-started-run")
		vfAssert(st.Params == runs[newest].last, "C06.newest/latest-status-is-the-last-one-recorded")
	}
	rec := fresh.ReadStatusRecent(dagFile, nRuns)
	vfAssert(len(rec) == nRuns, "C06.recent/returns-the-n-most-recent-runs")
	if len(rec) == nRuns && !tie {
		for i := 0; i+1 < len(rec); i++ {
			var ti, tj time.Time
			for _, r := range runs {
				if r.id == rec[i].Status.RequestID {
					ti = r.t
				}
				if r.id == rec[i+1].Status.RequestID {
					tj = r.t
				}
			}
			if ti.Truncate(time.Second).Equal(tj.Truncate(time.Second)) {
				vfClass("two-runs-started-in-the-same-second")
			}
			vfAssert(!ti.Before(tj), "C06.recent/newest-first")
		}
	}
	vfReach("end")
}

func vfNewDBAt(loc string) (*JSONDB, string) {
	return &JSONDB{location: loc, cache: filecache.New[*model.Status](300, 3*time.Hour)}, loc
}

func VerifHarness_C06_newest2() { vfHarnessC06Newest(2, vfDagNames) }
func VerifHarness_C06_newest3() { vfHarnessC06Newest(3, vfDagNames[:3]) }

// C06.byid: lookup by request id returns the last status recorded for that run.
func VerifHarness_C06_byid() {
	db, loc := vfNewDB()
	if vfNative() {
		defer os.RemoveAll(loc)
	}
	dagFile := "/dags/" + vfDagNames[vfChoice("name", len(vfDagNames))] + ".yaml"
	// ids sharing their first 8 characters (the file name keeps only 8)
	ids := []string{"req-same-A", "req-same-B"}
	r0 := vfRecordRun(db, dagFile, ids[0], vfBase, 1+vfChoice("writes", 2), true)
	// (two runs in the same millisecond whose ids also share 8 characters would share one file: outside the claim)
	r1 := vfRecordRun(db, dagFile, ids[1], vfBase.Add(vfOffsets[1+vfChoice("offset", len(vfOffsets)-1)]), 1, vfChoice("closed", 2) == 1)
	if vfChoice("update", 2) == 1 {
		r0.last = "updated"
		err := db.Update(dagFile, ids[0], vfStatus(ids[0], scheduler.StatusError, "updated"))
		vfAssert(err == nil, "C06.byid/manual-update-of-a-recorded-run-succeeds")
	}
	fresh, _ := vfNewDBAt(loc)
	for _, r := range []vfRunRec{r0, r1} {
		sf, err := fresh.FindByRequestID(dagFile, r.id)
		vfAssert(err == nil && sf != nil && sf.Status.RequestID == r.id, "C06.byid/lookup-finds-the-run")
		if err == nil && sf != nil {
			vfAssert(sf.Status.Params == r.last, "C06.byid/lookup-returns-the-last-status-recorded")
		}
	}
	_, err := fresh.FindByRequestID(dagFile, "req-none")
	vfAssert(errors.Is(err, persistence.ErrRequestIDNotFound), "C06.byid/unknown-id-is-reported-not-found")
	vfReach("end")
}

// C06.isolation: operations on one DAG's history never change what another DAG's queries return.
func VerifHarness_C06_isolation() {
	db, loc := vfNewDB()
	if vfNative() {
		defer os.RemoveAll(loc)
	}
	i1 := vfChoice("d1", len(vfDagNames))
	i2 := vfChoice("d2", len(vfDagNames))
	vfAssume(i1 != i2)
	d1, d2 := "/dags/"+vfDagNames[i1]+".yaml", "/dags/"+vfDagNames[i2]+".yaml"
	vfRecordRun(db, d1, "req-d1-aa", vfBase, 1, true)
	r2 := vfRecordRun(db, d2, "req-d2-bb", vfBase.Add(time.Second), 1, true)
	switch vfChoice("op", 4) {
	case 0:
		_ = db.RemoveAll(d1)
	case 1:
		_ = db.Rename(d1, "/dags/zz.yaml")
	case 2:
		_ = db.Update(d1, "req-d1-aa", vfStatus("req-d1-aa", scheduler.StatusError, "upd"))
	case 3:
		vfRecordRun(db, d1, "req-d1-cc", vfBase.Add(time.Minute), 1, true)
	}
	fresh, _ := vfNewDBAt(loc)
	sf, err := fresh.FindByRequestID(d2, r2.id)
	vfAssert(err == nil && sf != nil && sf.Status.Params == r2.last, "C06.isolation/other-dag-lookup-unchanged")
	st, err := fresh.ReadStatusToday(d2)
	vfAssert(err == nil && st != nil && st.RequestID == r2.id, "C06.isolation/other-dag-latest-status-unchanged")
	rec := fresh.ReadStatusRecent(d2, 3)
	vfAssert(len(rec) == 1 && rec[0].Status.RequestID == r2.id, "C06.isolation/other-dag-history-unchanged")
	vfReach("end")
}

// C06.rename: renaming carries every run to the new name.
func VerifHarness_C06_rename() {
	db, loc := vfNewDB()
	if vfNative() {
		defer os.RemoveAll(loc)
	}
	i1 := vfChoice("old", len(vfDagNames))
	i2 := vfChoice("new", len(vfDagNames))
	vfAssume(i1 != i2)
	d1, d2 := "/dags/"+vfDagNames[i1]+".yaml", "/dags/"+vfDagNames[i2]+".yaml"
	r1 := vfRecordRun(db, d1, "req-d1-aa", vfBase, 1, true)
	r2 := vfRecordRun(db, d1, "req-d1-bb", vfBase.Add(time.Minute), 2, true)
	err := db.Rename(d1, d2)
	vfAssert(err == nil, "C06.rename/rename-succeeds")
	fresh, _ := vfNewDBAt(loc)
	for _, r := range []vfRunRec{r1, r2} {
		sf, err := fresh.FindByRequestID(d2, r.id)
		vfAssert(err == nil && sf != nil && sf.Status.Params == r.last, "C06.rename/every-run-is-available-under-the-new-name")
	}
	vfAssert(len(fresh.ReadStatusRecent(d1, 3)) == 0, "C06.rename/nothing-remains-under-the-old-name")
	rec := fresh.ReadStatusRecent(d2, 3)
	vfAssert(len(rec) == 2 && rec[0].Status.RequestID == r2.id, "C06.rename/history-order-is-kept")
	vfReach("end")
}

// C06.retention: retention removes exactly the runs older than the retention period.
// Ages (relative to now) come from a menu around the boundary; files are aged with os.Chtimes.
func VerifHarness_C06_retention() {
	db, loc := vfNewDB()
	if vfNative() {
		defer os.RemoveAll(loc)
	}
	dagFile := "/dags/" + vfDagNames[vfChoice("name", 3)] + ".yaml"
	days := vfChoice("retentionDays", 3) // 0, 1, 2
	ages := []time.Duration{0, 23 * time.Hour, 25 * time.Hour, 47 * time.Hour, 49 * time.Hour}
	now := time.Now()
	var runs []vfRunRec
	var age []time.Duration
	for i := 0; i < 2; i++ {
		a := ages[vfChoice("age", len(ages))]
		t := now.Add(-a)
		r := vfRecordRun(db, dagFile, vfIDs[i], t.Add(time.Duration(i)*time.Second), 1, true)
		runs = append(runs, r)
		age = append(age, a)
		// age the compacted file
		matches := db.latest(db.globPattern(dagFile), 10)
		for _, m := range matches {
			if timestamp(m) == t.Add(time.Duration(i)*time.Second).Format("20060102.15:04:05.000") {
				_ = os.Chtimes(m, t, t)
			}
		}
	}
	err := db.RemoveOld(dagFile, days)
	vfAssert(err == nil, "C06.retention/clean-up-succeeds")
	fresh, _ := vfNewDBAt(loc)
	for i, r := range runs {
		_, ferr := fresh.FindByRequestID(dagFile, r.id)
		old := age[i] > time.Duration(days)*24*time.Hour
		if days == 0 {
			old = true // retention 0 removes every recorded run (RemoveAll)
		}
		if old {
			vfAssert(ferr != nil, "C06.retention/runs-older-than-the-period-are-removed")
		} else {
			vfAssert(ferr == nil, "C06.retention/runs-within-the-period-are-kept")
		}
	}
	// a negative retention keeps everything: checked on a second DAG
	vfReach("end")
}

// C06.today: with the "today" mode the latest-status query only looks at runs started today.
func VerifHarness_C06_today() {
	loc := "/data"
	if vfNative() {
		loc, _ = os.MkdirTemp("", "vfc06")
		defer os.RemoveAll(loc)
	}
	db := &JSONDB{location: loc, cache: filecache.New[*model.Status](300, 3*time.Hour), latestStatusToday: true}
	dagFile := "/dags/" + vfDagNames[vfChoice("name", 3)] + ".yaml"
	now := time.Now()
	midnight := now.Truncate(24 * time.Hour)
	// a run earlier today (or none), and a run yesterday (or none)
	hasToday := vfChoice("today", 2) == 1
	hasYesterday := vfChoice("yesterday", 2) == 1
	if hasYesterday {
		vfRecordRun(db, dagFile, "req-yest-1", midnight.Add(-time.Duration(1+vfChoice("yOffset", 2)*22)*time.Hour), 1, true)
	}
	if hasToday {
		vfRecordRun(db, dagFile, "req-today-2", midnight.Add(time.Duration(vfChoice("tOffset", 2))*time.Millisecond), 1, true)
	}
	fresh := &JSONDB{location: loc, cache: filecache.New[*model.Status](300, 3*time.Hour), latestStatusToday: true}
	st, err := fresh.ReadStatusToday(dagFile)
	if hasToday {
		vfAssert(err == nil && st != nil && st.RequestID == "req-today-2", "C06.today/latest-status-of-today-is-returned")
	} else {
		vfAssert(errors.Is(err, persistence.ErrNoStatusDataToday), "C06.today/no-run-today-means-no-status-today")
	}
	vfReach("end")
}

// C06.bigrecord: a status record of any size (symbolic, up to 100 000 bytes: a run with
// many steps or long parameters) is found again; the record size is carried by one string
// field whose length is symbolic (vfBlob), the payload itself stays an opaque token with a
// symbolic wire size.
func VerifHarness_C06_bigrecord() {
	db, loc := vfNewDB()
	if vfNative() {
		defer os.RemoveAll(loc)
	}
	dagFile := "/dags/a.yaml"
	pad := vfBlob("pad", 100000)
	// keep away from the exact buffer boundaries: the wire size of the real encoding exceeds
	// the pad by the (unmodelled) length of the other fields
	vfAssume(len(pad) <= 1000 || len(pad) >= 66000)
	bigFirst := vfChoice("bigWrite", 2) == 0
	closeIt := vfChoice("close", 2) == 1
	err := db.Open(dagFile, vfBase, "req-big-1")
	vfAssume(err == nil)
	s1 := vfStatus("req-big-1", scheduler.StatusRunning, "w1")
	s2 := vfStatus("req-big-1", scheduler.StatusSuccess, "w2")
	if bigFirst {
		s1.Log = pad
	} else {
		s2.Log = pad
	}
	vfAssume(db.Write(s1) == nil)
	vfAssume(db.Write(s2) == nil)
	if closeIt {
		vfAssume(db.Close() == nil)
	}
	fresh, _ := vfNewDBAt(loc)
	st, err := fresh.ReadStatusToday(dagFile)
	vfAssert(err == nil && st != nil && st.Params == "w2", "C06.bigrecord/latest-status-is-the-last-one-recorded")
	sf, err := fresh.FindByRequestID(dagFile, "req-big-1")
	vfAssert(err == nil && sf != nil && sf.Status.Params == "w2", "C06.bigrecord/lookup-by-id-returns-the-last-status")
	rec := fresh.ReadStatusRecent(dagFile, 1)
	vfAssert(len(rec) == 1 && rec[0].Status.Params == "w2", "C06.bigrecord/recent-history-returns-the-last-status")
	vfReach("end")
}

// C06.editopen: a status recorded by another process (a manual edit) while the run's own
// writer is still open is not lost when the run is closed (compaction) afterwards.
func VerifHarness_C06_editopen() {
	db, loc := vfNewDB()
	if vfNative() {
		defer os.RemoveAll(loc)
	}
	dagFile := "/dags/" + vfDagNames[vfChoice("name", 3)] + ".yaml"
	id := "req-open-1"
	vfAssume(db.Open(dagFile, vfBase, id) == nil)
	vfAssume(db.Write(vfStatus(id, scheduler.StatusRunning, "w1")) == nil)
	last := "w1"
	editor, _ := vfNewDBAt(loc)
	if editor.Update(dagFile, id, vfStatus(id, scheduler.StatusError, "edited")) == nil {
		last = "edited"
	}
	if vfChoice("writeAfterEdit", 2) == 1 {
		vfAssume(db.Write(vfStatus(id, scheduler.StatusSuccess, "w2")) == nil)
		last = "w2"
	}
	if vfChoice("close", 2) == 1 {
		vfAssume(db.Close() == nil)
	}
	fresh, _ := vfNewDBAt(loc)
	sf, err := fresh.FindByRequestID(dagFile, id)
	vfAssert(err == nil && sf != nil && sf.Status.Params == last, "C06.editopen/lookup-returns-the-last-status-recorded")
	st, err := fresh.ReadStatusToday(dagFile)
	vfAssert(err == nil && st != nil && st.Params == last, "C06.editopen/latest-status-is-the-last-one-recorded")
	rec := fresh.ReadStatusRecent(dagFile, 2)
	vfAssert(len(rec) == 1 && rec[0].Status.Params == last, "C06.editopen/recent-history-returns-the-last-status")
	vfReach("end")
}
