package jsondb

import (
	"os"
	"time"

	"github.com/ErdemOzgen/blackdagger/internal/dag/scheduler"
)

// C07: the recording process is killed at any mutating file-system operation (and at any
// prefix of any write) of open / write* / close-with-compaction / update / rename /
// remove-old, on top of a completed prior run. A fresh store must still answer.

func vfHarnessC07(names []string) {
	db, loc := vfNewDB()
	if vfNative() {
		defer os.RemoveAll(loc)
	}
	dagFile := "/dags/" + names[vfChoice("name", len(names))] + ".yaml"
	other := "/dags/zz.yaml"
	prior := vfRecordRun(db, dagFile, "req-prio-0", vfBase, 1+vfChoice("priorWrites", 2), true)
	op := vfChoice("op", 4)
	acked := 0
	updAcked := false
	id2 := "req-intr-1"
	t2 := vfBase.Add(vfOffsets[1+vfChoice("offset", len(vfOffsets)-1)])
	crashed := vfCrashable(func() {
		switch op {
		case 0: // a new run: open, write, write, close (compaction)
			if db.Open(dagFile, t2, id2) != nil {
				return
			}
			if db.Write(vfStatus(id2, scheduler.StatusRunning, id2+"/w1")) == nil {
				acked = 1
			}
			if db.Write(vfStatus(id2, scheduler.StatusSuccess, id2+"/w2")) == nil {
				acked = 2
			}
			_ = db.Close()
		case 1: // manual status update of the completed run
			if db.Update(dagFile, prior.id, vfStatus(prior.id, scheduler.StatusError, "updated")) == nil {
				updAcked = true
			}
		case 2:
			_ = db.Rename(dagFile, other)
		case 3:
			_ = db.RemoveOld(dagFile, 30)
		}
	})
	if crashed {
		vfClass("killed")
	}
	fresh, _ := vfNewDBAt(loc)
	// where the prior run must be found: under the old name, or (rename) under either name
	find := func(id string) (string, bool) {
		if sf, err := fresh.FindByRequestID(dagFile, id); err == nil && sf != nil {
			return sf.Status.Params, true
		}
		if op == 2 {
			if sf, err := fresh.FindByRequestID(other, id); err == nil && sf != nil {
				return sf.Status.Params, true
			}
		}
		return "", false
	}
	got, ok := find(prior.id)
	vfAssert(ok, "C07.completed/completed-run-is-still-found")
	if ok {
		if op == 1 {
			if updAcked {
				vfAssert(got == "updated", "C07.ack/acknowledged-update-is-not-lost")
			} else {
				vfAssert(got == "updated" || got == prior.last, "C07.completed/completed-run-keeps-a-complete-status")
			}
		} else {
			vfAssert(got == prior.last, "C07.completed/completed-run-is-returned-intact")
		}
	}
	if op == 0 && acked >= 1 {
		g2, ok2 := find(id2)
		vfAssert(ok2, "C07.ack/interrupted-run-with-acknowledged-write-is-found")
		if ok2 {
			vfAssert(g2 == id2+"/w2" || (acked == 1 && g2 == id2+"/w1"), "C07.ack/status-not-older-than-the-last-acknowledged-write")
		}
	}
	// the queries keep answering and never hide acknowledged data
	if op != 2 {
		st, err := fresh.ReadStatusToday(dagFile)
		if op == 0 && acked == 0 && err != nil {
			vfClass("newest-file-without-a-complete-status")
		}
		vfAssert(err == nil && st != nil, "C07.answers/latest-status-query-keeps-answering")
		if err == nil && st != nil {
			vfAssert(st.RequestID == prior.id || st.RequestID == id2, "C07.answers/latest-status-is-a-recorded-run")
			if op == 0 && acked >= 1 {
				vfAssert(st.RequestID == id2, "C07.answers/acknowledged-newer-run-is-not-hidden")
			}
		}
		rec := fresh.ReadStatusRecent(dagFile, 3)
		seenPrior, seenNew := 0, 0
		for _, r := range rec {
			if r.Status.RequestID == prior.id {
				seenPrior++
			}
			if r.Status.RequestID == id2 {
				seenNew++
			}
		}
		vfAssert(seenPrior >= 1, "C07.answers/completed-run-appears-in-recent-history")
		if seenPrior > 1 || seenNew > 1 {
			vfClass("run-listed-twice")
		}
		vfAssert(seenPrior <= 1 && seenNew <= 1, "C07.answers/no-run-is-listed-twice")
	}
	_ = time.Second
	vfReach("end")
}

func VerifHarness_C07_crash() { vfHarnessC07([]string{"a", "a_c"}) }

// C07.crashthen: the history stays usable after the crash — a fresh process applies a manual
// status update to the interrupted (or to the completed) run and the queries must show it.
func VerifHarness_C07_crashthen() {
	db, loc := vfNewDB()
	if vfNative() {
		defer os.RemoveAll(loc)
	}
	dagFile := "/dags/a.yaml"
	prior := vfRecordRun(db, dagFile, "req-prio-0", vfBase, 1, true)
	id2 := "req-intr-1"
	t2 := vfBase.Add(vfOffsets[1+vfChoice("offset", len(vfOffsets)-1)])
	acked := 0
	crashed := vfCrashable(func() {
		if db.Open(dagFile, t2, id2) != nil {
			return
		}
		if db.Write(vfStatus(id2, scheduler.StatusRunning, id2+"/w1")) == nil {
			acked = 1
		}
		if db.Write(vfStatus(id2, scheduler.StatusSuccess, id2+"/w2")) == nil {
			acked = 2
		}
		_ = db.Close()
	})
	if crashed {
		vfClass("killed")
	}
	// a fresh process edits a run by hand
	editor, _ := vfNewDBAt(loc)
	target := prior.id
	if vfChoice("editTarget", 2) == 1 {
		target = id2
	}
	updErr := editor.Update(dagFile, target, vfStatus(target, scheduler.StatusError, "edited"))
	if target == prior.id || acked >= 1 {
		vfAssert(updErr == nil, "C07.then/recorded-run-can-still-be-edited")
	}
	fresh, _ := vfNewDBAt(loc)
	if updErr == nil {
		sf, err := fresh.FindByRequestID(dagFile, target)
		vfAssert(err == nil && sf != nil && sf.Status.Params == "edited", "C07.then/acknowledged-edit-is-returned-by-lookup")
		rec := fresh.ReadStatusRecent(dagFile, 3)
		n, edited := 0, false
		for _, r := range rec {
			if r.Status.RequestID == target {
				n++
				edited = edited || r.Status.Params == "edited"
			}
		}
		vfAssert(n == 1, "C07.then/edited-run-is-listed-exactly-once")
		vfAssert(n != 1 || edited, "C07.then/recent-history-shows-the-acknowledged-edit")
		if target == id2 || acked == 0 {
			// the edited run is the newest one that has a status
			st, err := fresh.ReadStatusToday(dagFile)
			if target == id2 {
				vfAssert(err == nil && st != nil && st.Params == "edited", "C07.then/latest-status-shows-the-acknowledged-edit")
			}
		}
	}
	vfReach("end")
}
