package scheduler

import (
	"context"
	"io"
	"os"
	"strings"
	"syscall"

	"github.com/ErdemOzgen/blackdagger/internal/dag"
	"github.com/ErdemOzgen/blackdagger/internal/dag/executor"
)

// C12 / C11.out: the real Schedule runs ONE step whose real Node.setup / Execute /
// teardown work over the file-system model. The scripted executor delivers one stdout
// chunk and one stderr chunk per attempt through the copying discipline of os/exec
// (vfCopyTo). After the run the files named in the status must hold the last attempt's
// output, and a captured output must be the trimmed stdout.

type vfIOExec struct {
	out, errw io.Writer
}

var (
	vfIOAttempt int
	vfIOFails   int      // attempts that fail before the step succeeds
	vfIOStdout  []string // per attempt
	vfIOStderr  []string
)

func (e *vfIOExec) SetStdout(w io.Writer) { e.out = w }
func (e *vfIOExec) SetStderr(w io.Writer) { e.errw = w }
func (e *vfIOExec) Kill(sig os.Signal) error {
	return nil
}
func (e *vfIOExec) Run() error {
	a := vfIOAttempt
	vfIOAttempt++
	vfEvent("start", 0, a)
	vfCopyTo(e.out, vfIOStdout[a])
	vfCopyTo(e.errw, vfIOStderr[a])
	vfEvent("end", 0, a)
	if a < vfIOFails {
		return vfRunErr
	}
	return nil
}

func vfFileText(path string) (string, bool) {
	b, err := os.ReadFile(path)
	if err != nil {
		return "", false
	}
	return string(b), true
}

type vfIOCfg struct {
	maxAttempts int // 1..3 attempts (first k-1 fail)
	chunkLen    int // upper bound on a chunk's length (bytes)
	capture     bool
	termOnly    bool // only termination is asserted (sizes beyond what the content assertions can decide)
}

func vfNodeIO(cfg vfIOCfg) {
	executor.Register("verifio", func(ctx context.Context, step dag.Step) (executor.Executor, error) {
		return &vfIOExec{}, nil
	})
	dir := "/logs"
	if vfNative() {
		dir, _ = os.MkdirTemp("", "vfc12")
		defer os.RemoveAll(dir)
	}
	attempts := 1 + vfChoice("attempts", cfg.maxAttempts)
	// the last attempt succeeds, or every attempt fails and the step ends failed ("any final state")
	finalFails := !cfg.termOnly && vfChoice("finalOutcome", 2) == 1
	vfIOAttempt, vfIOFails = 0, attempts-1
	if finalFails {
		vfIOFails = attempts
	}
	vfIOStdout, vfIOStderr = nil, nil
	for i := 0; i < attempts; i++ {
		var so string
		if cfg.termOnly {
			so = vfBlob("stdout", cfg.chunkLen) // only its length matters for termination
		} else {
			so = vfString("stdout", cfg.chunkLen)
		}
		if !cfg.termOnly {
			// the property quantifies over any bytes except NUL (a NUL cannot be put into the environment)
			vfAssume(!strings.Contains(so, "\x00"))
		}
		vfIOStdout = append(vfIOStdout, so)
		if cfg.termOnly {
			vfIOStderr = append(vfIOStderr, "")
		} else {
			vfIOStderr = append(vfIOStderr, vfString("stderr", cfg.chunkLen))
		}
	}
	step := dag.Step{Name: "s", ExecutorConfig: dag.ExecutorConfig{Type: "verifio"}, Dir: dir,
		RetryPolicy: &dag.RetryPolicy{Limit: attempts - 1}}
	hasStdout := !cfg.termOnly && vfChoice("stdoutFile", 2) == 1
	hasStderr := !cfg.termOnly && vfChoice("stderrFile", 2) == 1
	hasOutput := cfg.capture && (cfg.termOnly || vfChoice("output", 2) == 1)
	if hasStdout {
		step.Stdout = dir + "/out.txt"
	}
	if hasStderr {
		step.Stderr = dir + "/err.txt"
	}
	if hasOutput {
		step.Output = "VFCAPTURED"
		if cfg.chunkLen > 65536 {
			vfClass("captured-output-may-exceed-the-pipe-capacity")
		}
	}
	lg := vfQuietLogger()
	g, err := NewExecutionGraph(lg, step)
	vfAssume(err == nil)
	sc := New(&Config{Logger: lg, LogDir: dir, ReqID: "req12345"})
	if vfNative() {
		sc.pause = 1000000
	}
	ctx := dag.NewContext(context.Background(), &dag.DAG{Name: "verif"}, nil, "req", "")
	done := make(chan *Node)
	go func() {
		for range done {
		}
	}()
	_ = sc.Schedule(ctx, g, done)

	nd := g.nodes[0]
	if cfg.termOnly {
		vfAssert(nd.data.State.Status == NodeStatusSuccess || nd.data.State.Status == NodeStatusError, "C11.big/step-with-captured-output-finishes")
		vfReach("end")
		return
	}
	last := attempts - 1
	if finalFails {
		vfAssert(nd.data.State.Status == NodeStatusError, "C12.run/step-ends-failed-when-every-attempt-fails")
		vfClass("step-ended-failed")
	} else {
		vfAssert(nd.data.State.Status == NodeStatusSuccess, "C12.run/step-finished")
	}
	vfAssert(vfIOAttempt == attempts, "C12.run/every-attempt-was-made")
	logPath := nd.data.State.Log
	logText, ok := vfFileText(logPath)
	vfAssert(ok, "C12.bytes/log-file-named-in-status-exists")
	if attempts > 1 {
		vfClass("after-retry")
	}
	vfAssert(strings.Contains(logText, vfIOStdout[last]), "C12.bytes/log-holds-last-attempt-stdout")
	if !hasStderr {
		vfAssert(strings.Contains(logText, vfIOStderr[last]), "C12.bytes/log-holds-last-attempt-stderr")
	} else {
		et, ok := vfFileText(step.Stderr)
		vfAssert(ok && strings.Contains(et, vfIOStderr[last]), "C12.bytes/stderr-file-holds-last-attempt-stderr")
	}
	if hasStdout {
		ot, ok := vfFileText(step.Stdout)
		vfAssert(ok && strings.Contains(ot, vfIOStdout[last]), "C12.bytes/stdout-file-holds-last-attempt-stdout")
	}
	if hasOutput {
		want := strings.TrimSpace(vfIOStdout[last])
		vfAssert(os.Getenv("VFCAPTURED") == want, "C11.out/captured-output-is-trimmed-stdout-in-environment")
		v, ok := nd.data.Step.OutputVariables.Load("VFCAPTURED")
		vs, _ := v.(string)
		vfAssert(ok && vs == "VFCAPTURED="+want, "C11.out/captured-output-is-shared-with-later-steps")
	}
	_ = syscall.SIGTERM
	vfReach("end")
}

func VerifHarness_C12_bytes() { vfNodeIO(vfIOCfg{maxAttempts: 2, chunkLen: 6, capture: true}) }
func VerifHarness_C12_bytes3() {
	vfNodeIO(vfIOCfg{maxAttempts: 3, chunkLen: 6, capture: true})
}
func VerifHarness_C12_big() { vfNodeIO(vfIOCfg{maxAttempts: 2, chunkLen: 10000, capture: false}) }

// C11.retry: a later retry of a run sees every captured output with exactly the recorded
// value (values containing '=', spaces, quotes included): real NewExecutionGraphForRetry.
func VerifHarness_C11_retryrestore() {
	val := vfString("value", 6)
	vfAssume(!strings.Contains(val, "\x00")) // any bytes except NUL
	m := &dag.SyncMap{}
	m.Store("VFRESTORED", "VFRESTORED="+val)
	s0 := dag.Step{Name: "s0", OutputVariables: m}
	s1 := dag.Step{Name: "s1", Depends: []string{"s0"}}
	n0 := NewNode(s0, NodeState{Status: NodeStatusSuccess})
	n1 := NewNode(s1, NodeState{Status: NodeStatusError})
	os.Unsetenv("VFRESTORED")
	g, err := NewExecutionGraphForRetry(vfQuietLogger(), n0, n1)
	vfAssert(err == nil, "C11.retry/retry-graph-is-built")
	vfAssert(os.Getenv("VFRESTORED") == val, "C11.retry/captured-output-is-restored-unchanged-for-a-retry")
	v, ok := g.outputVariables.Load("VFRESTORED")
	vs, _ := v.(string)
	vfAssert(ok && vs == "VFRESTORED="+val, "C11.retry/captured-output-stays-shared-with-the-retried-steps")
	vfAssert(g.nodes[1].data.Step.OutputVariables == g.outputVariables, "C11.retry/retried-step-receives-the-shared-outputs")
	vfReach("end")
}

// C11.big: a captured output of any size (symbolic length up to 100 000 bytes): the step must finish.
func VerifHarness_C11_big() {
	vfNodeIO(vfIOCfg{maxAttempts: 1, chunkLen: 100000, capture: true, termOnly: true})
}
