package scheduler

import (
	"github.com/ErdemOzgen/blackdagger/internal/dag"
)

var vfNames = []string{"s0", "s1", "s2", "s3", "s4"}

func vfDependsOn(s dag.Step, name string) bool {
	for _, d := range s.Depends {
		if d == name {
			return true
		}
	}
	return false
}

// vfBuildSteps builds n steps with nondet acyclic edges (i depends on j<i) and nondet continueOn.
func vfBuildSteps(n int) []dag.Step {
	steps := make([]dag.Step, n)
	for i := range steps {
		steps[i].Name = vfNames[i]
		steps[i].ContinueOn.Failure = vfBool("cof")
		steps[i].ContinueOn.Skipped = vfBool("cos")
		for j := 0; j < i; j++ {
			if vfChoice("edge", 2) == 1 {
				steps[i].Depends = append(steps[i].Depends, vfNames[j])
			}
		}
	}
	return steps
}

func vfHarnessC01Gate(n int) {
	steps := vfBuildSteps(n)
	g, err := NewExecutionGraph(nil, steps...)
	vfAssume(err == nil)
	before := make([]NodeStatus, n)
	for i, nd := range g.Nodes() {
		before[i] = NodeStatus(vfRange("st", 0, 5))
		nd.setStatus(before[i])
	}
	k := vfChoice("target", n)
	ready := isReady(g, g.Nodes()[k])

	allowedAll, blockC, blockS, pending := true, false, false, false
	for j := 0; j < k; j++ {
		if !vfDependsOn(steps[k], vfNames[j]) {
			continue
		}
		switch {
		case before[j] == NodeStatusSuccess:
		case before[j] == NodeStatusError && steps[j].ContinueOn.Failure:
		case before[j] == NodeStatusSkipped && steps[j].ContinueOn.Skipped:
		case before[j] == NodeStatusError, before[j] == NodeStatusCancel:
			allowedAll, blockC = false, true
		case before[j] == NodeStatusSkipped:
			allowedAll, blockS = false, true
		default:
			allowedAll, pending = false, true
		}
	}
	vfAssert(ready == allowedAll, "C01.gate/ready-iff-all-dependencies-allowed")
	for i, nd := range g.Nodes() {
		after := nd.State().Status
		if i != k || ready {
			vfAssert(after == before[i], "C01.gate/frame-no-other-status-changes")
			continue
		}
		vfAssert(after == before[k] ||
			(after == NodeStatusCancel && blockC) ||
			(after == NodeStatusSkipped && blockS), "C02.gate/marking-only-cancel-or-skip-with-cause")
		vfAssert(!(pending && !blockC && !blockS) || after == before[k], "C02.gate/no-mark-while-only-pending")
		vfAssert(!(blockC || blockS) || after == NodeStatusCancel || after == NodeStatusSkipped, "C02.gate/blocked-dependent-is-marked")
	}
	vfReach("end")
}

func VerifHarness_C01_gate3() { vfHarnessC01Gate(3) }
func VerifHarness_C01_gate4() { vfHarnessC01Gate(4) }
