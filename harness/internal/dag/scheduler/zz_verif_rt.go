package scheduler

// Harness runtime: body-less declarations intercepted by gosym (symbolic side).
// The replay side substitutes bodies reading a recorded assignment.

func vfBool(tag string) bool
func vfInt(tag string) int
func vfRange(tag string, lo, hi int) int
func vfString(tag string, maxLen int) string
func vfChoice(tag string, n int) int
func vfAssume(c bool)
func vfAssert(c bool, label string)
func vfReach(label string)
func vfClass(label string)
func vfEvent(kind string, a, b int)
func vfCount(kind string, a int) int
func vfEventIndex(kind string, a, nth int) int
func vfLastEventIndex(kind string, a int) int
func vfYield(label string)
func vfWaitEvent(label string)
func vfLiveThreads() int
func vfConcretize(x, lo, hi int) int
func vfNote(s string)
