package scheduler

import (
	"time"
)

// C04.status: the overall status computed from an end-of-run state matches what happened.
// Pre-state constrained by invariant J (asserted on RUN by C04.inv):
//
//	some node failed            => lastError != nil
//	lastError != nil            => some node failed or canceled
//	not stopped && some node canceled => lastError != nil (deadline, or downstream of a failed step)
func vfHarnessC04Status(n int) {
	steps := vfBuildSteps(n)
	g, err := NewExecutionGraph(vfQuietLogger(), steps...)
	vfAssume(err == nil)
	sc := New(&Config{Logger: vfQuietLogger()})
	g.startedAt = time.Unix(1700000000, 0)
	allOK, anyErr, anyCancel := true, false, false
	for _, nd := range g.Nodes() {
		// terminal states only: failed, canceled, finished, skipped
		s := NodeStatus(vfRange("final", 2, 5))
		nd.setStatus(s)
		if s != NodeStatusSuccess && s != NodeStatusSkipped {
			allOK = false
		}
		if s == NodeStatusError {
			anyErr = true
		}
		if s == NodeStatusCancel {
			anyCancel = true
		}
	}
	canceled := vfBool("stopped")
	if canceled {
		sc.setCanceled()
	}
	hasErr := vfBool("lastError")
	if hasErr {
		sc.setLastError(vfRecErr)
	}
	// invariant J
	vfAssume(!anyErr || hasErr)
	vfAssume(!hasErr || anyErr || anyCancel)
	vfAssume(canceled || !anyCancel || hasErr)

	got := sc.Status(g)
	vfAssert((got == StatusSuccess) == allOK, "C04.status/succeeded-iff-every-step-finished-or-skipped")
	if !allOK {
		if canceled {
			if !anyErr {
				vfAssert(got == StatusCancel, "C04.status/stopped-run-is-canceled")
			} else {
				vfAssert(got == StatusCancel || got == StatusError, "C04.status/stopped-and-failed-is-canceled-or-failed")
			}
		} else {
			vfAssert(got == StatusError, "C04.status/unstopped-unsuccessful-run-is-failed")
		}
	}
	vfAssert(got != StatusNone && got != StatusRunning, "C04.status/finished-run-is-not-reported-running")
	vfReach("end")
}

func VerifHarness_C04_status3() { vfHarnessC04Status(3) }
func VerifHarness_C04_status4() { vfHarnessC04Status(4) }
