package scheduler

import (
	"errors"

	"github.com/ErdemOzgen/blackdagger/internal/dag"
)

// C14.iff: NewExecutionGraph errs iff a dangling dependency exists or the relation has a
// cycle (self-loops included). Oracle: DFS over the edge bits, independent of from/to maps.
func vfHarnessC14Iff(n int, selfLoops bool, danglingMode int) {
	steps := make([]dag.Step, n)
	var edge [5][5]bool
	dangling := false
	// at most one step carries a dangling name, first or last in its depends list
	dstep, dpos := -1, 0
	if danglingMode > 0 {
		c := vfChoice("dangling", 1+2*n)
		if c > 0 {
			dstep, dpos = (c-1)/2, (c-1)%2
		}
	}
	for i := 0; i < n; i++ {
		steps[i].Name = vfNames[i]
		if i == dstep && dpos == 0 {
			steps[i].Depends = append(steps[i].Depends, "ghost")
			dangling = true
		}
		for j := 0; j < n; j++ {
			if i == j && !selfLoops {
				continue
			}
			if vfChoice("edge", 2) == 1 {
				edge[i][j] = true // i depends on j
				steps[i].Depends = append(steps[i].Depends, vfNames[j])
			}
		}
		if i == dstep && dpos == 1 {
			steps[i].Depends = append(steps[i].Depends, "ghost")
			dangling = true
		}
	}
	g, err := NewExecutionGraph(nil, steps...)

	// oracle: colour DFS
	var colour [5]int
	cyc := false
	var visit func(u int)
	visit = func(u int) {
		colour[u] = 1
		for v := 0; v < n; v++ {
			if !edge[u][v] {
				continue
			}
			if colour[v] == 1 {
				cyc = true
			} else if colour[v] == 0 {
				visit(v)
			}
		}
		colour[u] = 2
	}
	for u := 0; u < n; u++ {
		if colour[u] == 0 {
			visit(u)
		}
	}
	vfAssert((err != nil) == (dangling || cyc), "C14.iff/rejected-iff-dangling-or-cyclic")
	if err == nil {
		vfAssert(g != nil && len(g.Nodes()) == n, "C14.iff/accepted-graph-has-all-steps")
	} else {
		vfAssert(g == nil, "C14.iff/no-graph-on-error")
		_ = errors.Is
	}
	vfReach("end")
}

func VerifHarness_C14_iff3()  { vfHarnessC14Iff(3, true, 1) }
func VerifHarness_C14_iff4()  { vfHarnessC14Iff(4, true, 0) }
func VerifHarness_C14_iff4d() { vfHarnessC14Iff(4, false, 1) }

// all 2^20 self-loop-free edge sets on 5 steps (thorough tier)
func VerifHarness_C14_iff5() { vfHarnessC14Iff(5, false, 0) }
