package scheduler

import (
	"context"
	"errors"
	"io"
	"os"
	"syscall"
	"time"

	"github.com/ErdemOzgen/blackdagger/internal/dag"
	"github.com/ErdemOzgen/blackdagger/internal/dag/executor"
)

// RUN: shared threaded harness for C01-C05, C15 (DESIGN.md 6.0).
// The real NewExecutionGraph + Scheduler.Schedule run a nondet DAG whose steps use a
// scripted executor: Run() emits start/end ghost events, waits for an environment
// completion event (any order) and returns a nondet outcome. Monitors are evaluated
// at the instant a step's command starts.

const (
	vfMonC01 = 1 << iota // dependency gate at start
	vfMonC02             // final-state containment
	vfMonC03             // exactly once / retry bound
	vfMonC04             // outcome + handlers
	vfMonC05             // stop
	vfMonC15             // maxActiveRuns
	vfMonC08             // status persisted during the run is truthful
)

type vfRunCfg struct {
	n         int
	mon       int
	retries   int  // max retry limit R (0 = no retry policies)
	preconds  bool // steps may carry a precondition
	handlers  bool // nondet subset of handlers
	stop      bool // a stop request may arrive
	maxact    bool // nondet maxActiveRuns
	dry       bool
	repeat    bool // step s0 is a repeating step (C05.repeat)
	timeout   bool // the DAG has a timeout (C05.timeout)
	nilPolicy bool // also explore RetryPolicy == nil (otherwise Limit 0 stands for it)
	metPre    bool // also explore a met precondition (otherwise "none" stands for it)
	anyTurn   bool // commands may end at any yield point (one scheduling delay each), not only at quiescent points
}

var (
	vfRunErr    = errors.New("scripted failure")
	vfG         *ExecutionGraph
	vfSC        *Scheduler
	vfSteps     []dag.Step
	vfCfg       vfRunCfg
	vfK         int
	vfDone      bool         // Schedule has returned
	vfStopped   bool         // Signal has been called (stop accepted)
	vfStopEarly bool         // ... while some step was still unfinished
	vfAtStop    []NodeStatus // step labels at the instant the stop was accepted
)

const vfHandlerBase = 10

func vfStepIndex(name string) int {
	for i, n := range vfNames {
		if n == name {
			return i
		}
	}
	switch name {
	case "onExit":
		return vfHandlerBase + 0
	case "onSuccess":
		return vfHandlerBase + 1
	case "onFailure":
		return vfHandlerBase + 2
	case "onCancel":
		return vfHandlerBase + 3
	}
	return -1
}

type vfExec struct {
	idx    int
	killed bool
	ctx    context.Context
}

func (e *vfExec) SetStdout(out io.Writer) {}
func (e *vfExec) SetStderr(out io.Writer) {}
func (e *vfExec) Kill(sig os.Signal) error {
	s, _ := sig.(syscall.Signal)
	vfEvent("kill", e.idx, int(s))
	e.killed = true
	return nil
}

func vfStatusOf(i int) NodeStatus { return vfG.nodes[i].data.State.Status }

func vfAllowed(j int) bool {
	s := vfStatusOf(j)
	return s == NodeStatusSuccess ||
		(s == NodeStatusError && vfSteps[j].ContinueOn.Failure) ||
		(s == NodeStatusSkipped && vfSteps[j].ContinueOn.Skipped)
}

func vfOpenRuns(i int) int { return vfCount("start", i) - vfCount("end", i) }

func (e *vfExec) Run() error {
	attempt := vfCount("start", e.idx)
	if vfCfg.timeout && e.ctx.Err() != nil {
		// exec.CommandContext refuses to start a process once the context is done
		vfEvent("ctx-expired", e.idx, attempt)
		vfEvent("refused", e.idx, attempt)
		return e.ctx.Err()
	}
	vfEvent("start", e.idx, attempt)
	if e.idx < vfHandlerBase {
		if vfCfg.mon&vfMonC01 != 0 {
			for j := 0; j < vfCfg.n; j++ {
				if !vfDependsOn(vfSteps[e.idx], vfNames[j]) {
					continue
				}
				vfAssert(vfOpenRuns(j) == 0, "C01.run/dependency-has-no-running-attempt-at-start")
				s := vfStatusOf(j)
				vfAssert(s != NodeStatusNone && s != NodeStatusRunning, "C01.run/dependency-finished-its-last-attempt")
				vfAssert(vfAllowed(j), "C01.run/dependency-outcome-lets-dependents-proceed")
			}
		}
		if vfCfg.mon&vfMonC03 != 0 {
			vfAssert(vfOpenRuns(e.idx) == 1, "C03.count/no-two-concurrent-attempts-of-one-step")
		}
		if vfCfg.mon&vfMonC15 != 0 && vfK > 0 {
			running := 0
			for j := 0; j < vfCfg.n; j++ {
				if vfStatusOf(j) == NodeStatusRunning {
					running++
				}
			}
			vfAssert(running <= vfK, "C15.run/at-most-k-steps-executing")
		}
		if vfCfg.mon&vfMonC05 != 0 {
			if vfStopped {
				if vfCfg.repeat && e.idx == 0 && attempt > 0 {
					vfClass("repeating-step-repeated-after-stop")
				} else if vfAtStop[e.idx] == NodeStatusRunning {
					// the launch had been decided (label already "running") before the stop arrived
					vfClass("stop-raced-with-launch-in-progress")
				} else {
					vfClass("launch-decided-after-stop")
				}
			}
			vfAssert(!vfStopped, "C05.nolaunch/no-step-command-starts-after-stop-accepted")
		}
	} else if vfCfg.mon&vfMonC04 != 0 {
		for j := 0; j < vfCfg.n; j++ {
			vfAssert(vfOpenRuns(j) == 0, "C04.handlers/handler-starts-after-all-steps-ended")
		}
	}
	if vfCfg.anyTurn {
		// the command may end at any yield point of any thread (costs one scheduling delay), not
		// only when everything else is quiescent
		vfWaitTurn("anycomplete", e.idx, attempt)
	} else {
		vfWaitTurn("complete", e.idx, attempt)
	}
	fail := vfBool("fail")
	if e.killed || (vfCfg.timeout && e.ctx.Err() != nil) {
		fail = true // terminated by the stop signal / by the expired context
	}
	if vfCfg.timeout && e.ctx.Err() != nil {
		vfEvent("ctx-expired", e.idx, attempt)
	}
	f := 0
	if fail {
		f = 1
	}
	vfEvent("end", e.idx, f)
	if fail {
		vfEvent("endfail", e.idx, attempt)
		return vfRunErr
	}
	return nil
}

func vfCreator(ctx context.Context, step dag.Step) (executor.Executor, error) {
	idx := vfStepIndex(step.Name)
	vfEvent("create", idx, 0)
	return &vfExec{idx: idx, ctx: ctx}, nil
}

// vfSnapshotCheck: the overall status computed while the run is in progress (what the agent
// persists after each step) must not claim success unless every step has finished or was skipped.
func vfSnapshotCheck() {
	st := vfSC.Status(vfG)
	complete := true
	for _, nd := range vfG.nodes {
		s := nd.data.State.Status
		if s != NodeStatusSuccess && s != NodeStatusSkipped {
			complete = false
		}
	}
	if st == StatusSuccess && !complete {
		vfClass("mid-run-snapshot-says-finished")
	}
	vfAssert(st != StatusSuccess || complete, "C08.persist/run-in-progress-is-not-recorded-as-succeeded")
	vfReach("snapshot")
}

func vfHandlerStep(name string) *dag.Step {
	return &dag.Step{Name: name, ExecutorConfig: dag.ExecutorConfig{Type: "verif"}}
}

func vfRun(cfg vfRunCfg) {
	vfCfg = cfg
	vfStopped, vfStopEarly, vfDone = false, false, false
	executor.Register("verif", vfCreator)
	steps := vfBuildSteps(cfg.n)
	lim := make([]int, cfg.n)
	pre := make([]int, cfg.n) // 0 none, 1 met, 2 unmet
	for i := range steps {
		steps[i].ExecutorConfig.Type = "verif"
		if cfg.retries > 0 && (!cfg.nilPolicy || vfChoice("hasRetry", 2) == 1) {
			// a nil policy behaves as Limit 0; the nil case is explored when cfg.nilPolicy is set
			lim[i] = vfRange("limit", 0, cfg.retries)
			steps[i].RetryPolicy = &dag.RetryPolicy{Limit: lim[i]}
		}
		if cfg.preconds {
			// 0 none, 1 met, 2 unmet; a met precondition behaves as none and is explored when cfg.metPre is set
			if cfg.metPre {
				pre[i] = vfChoice("precond", 3)
			} else {
				pre[i] = 2 * vfChoice("precond", 2)
			}
			switch pre[i] {
			case 1:
				steps[i].Preconditions = []dag.Condition{{Condition: "x", Expected: "x"}}
			case 2:
				steps[i].Preconditions = []dag.Condition{{Condition: "x", Expected: "y"}}
			}
		}
	}
	if cfg.repeat {
		steps[0].RepeatPolicy.Repeat = true
		steps[0].RetryPolicy = nil
		lim[0] = 0
	}
	vfSteps = steps
	lg := vfQuietLogger()
	g, err := NewExecutionGraph(lg, steps...)
	vfAssume(err == nil)
	vfG = g
	c := &Config{Logger: lg, Dry: cfg.dry}
	vfK = 0
	if cfg.maxact {
		vfK = vfRange("maxActiveRuns", 0, cfg.n+1)
		c.MaxActiveRuns = vfK
	}
	if cfg.timeout {
		c.Timeout = time.Hour
		if vfNative() {
			c.Timeout = 400 * time.Millisecond // = vfNativeTimeout of the replay runtime
		}
	}
	hs := [4]bool{}
	if cfg.handlers {
		if hs[0] = vfChoice("onExit", 2) == 1; hs[0] {
			c.OnExit = vfHandlerStep("onExit")
		}
		if hs[1] = vfChoice("onSuccess", 2) == 1; hs[1] {
			c.OnSuccess = vfHandlerStep("onSuccess")
		}
		if hs[2] = vfChoice("onFailure", 2) == 1; hs[2] {
			c.OnFailure = vfHandlerStep("onFailure")
		}
		if hs[3] = vfChoice("onCancel", 2) == 1; hs[3] {
			c.OnCancel = vfHandlerStep("onCancel")
		}
	}
	if vfNative() {
		d, _ := os.MkdirTemp("", "vfrun")
		c.LogDir = d
		defer os.RemoveAll(d)
	}
	sc := New(c)
	vfSC = sc
	if vfNative() {
		sc.pause = time.Millisecond
	}
	ctx := dag.NewContext(context.Background(), &dag.DAG{Name: "verif"}, nil, "req", "")
	done := make(chan *Node)
	go func() {
		// as agent.Run does: every finished step triggers a status snapshot that is persisted
		for range done {
			if cfg.mon&vfMonC08 != 0 && !vfDone {
				vfSnapshotCheck()
			}
		}
	}()
	if cfg.stop {
		go func() {
			vfWaitTurn("stop", 0, 0)
			if vfDone {
				return // the run is over; a stop request now has nothing to act on
			}
			vfEvent("stop", 0, 0)
			vfStopped = true
			vfStopEarly = false
			vfAtStop = make([]NodeStatus, len(g.nodes))
			for i, nd := range g.nodes {
				st := nd.data.State.Status
				vfAtStop[i] = st
				if st == NodeStatusNone || st == NodeStatusRunning {
					vfStopEarly = true
				}
			}
			sc.Signal(g, syscall.SIGTERM, nil, true)
		}()
	}
	rerr := sc.Schedule(ctx, g, done)
	vfDone = true
	vfFinalChecks(cfg, lim, pre, hs, rerr)
	vfReach("end")
}

func vfFinalChecks(cfg vfRunCfg, lim, pre []int, hs [4]bool, rerr error) {
	g, sc := vfG, vfSC
	stopped := vfCount("stop", 0) > 0
	final := make([]NodeStatus, cfg.n)
	for i, nd := range g.nodes {
		final[i] = nd.data.State.Status
	}
	for i := 0; i < cfg.n; i++ {
		runs := vfCount("start", i)
		ends := vfCount("end", i)
		fails := vfCount("endfail", i)
		vfAssert(runs == ends, "RUN/no-step-command-still-running-at-return")
		if cfg.dry {
			vfAssert(runs == 0 && vfCount("create", i) == 0, "C03.dry/no-step-command-in-dry-run")
			vfAssert(final[i] == NodeStatusSuccess || final[i] == NodeStatusSkipped || final[i] == NodeStatusCancel, "C03.dry/steps-end-finished")
			continue
		}
		// blockers among dependencies, by final states
		bc, bs := false, false
		for j := 0; j < cfg.n; j++ {
			if !vfDependsOn(vfSteps[i], vfNames[j]) {
				continue
			}
			if final[j] == NodeStatusCancel || (final[j] == NodeStatusError && !vfSteps[j].ContinueOn.Failure) {
				bc = true
			}
			if final[j] == NodeStatusSkipped && !vfSteps[j].ContinueOn.Skipped {
				bs = true
			}
		}
		if cfg.mon&vfMonC02 != 0 && !stopped {
			vfAssert(final[i] != NodeStatusNone && final[i] != NodeStatusRunning, "C02.final/every-step-has-a-final-state")
			if !bc && !bs {
				if pre[i] == 2 {
					vfAssert(runs == 0 && final[i] == NodeStatusSkipped, "C02.final/unmet-precondition-skips-without-executing")
				} else {
					vfAssert(runs >= 1, "C02.final/unblocked-step-was-executed")
					lastFailed := fails == runs
					if lastFailed {
						vfAssert(final[i] == NodeStatusError, "C02.final/step-whose-last-attempt-failed-is-failed")
					} else {
						vfAssert(final[i] == NodeStatusSuccess, "C02.final/step-whose-last-attempt-succeeded-is-finished")
					}
				}
			} else {
				vfAssert(runs == 0, "C02.final/blocked-step-never-executed")
				vfAssert((final[i] == NodeStatusCancel && bc) || (final[i] == NodeStatusSkipped && bs), "C02.final/blocked-step-is-canceled-or-skipped-with-cause")
			}
		}
		if cfg.mon&vfMonC03 != 0 && !stopped {
			// attempts: all but possibly the last failed; bounded by limit+1
			vfAssert(runs <= lim[i]+1, "C03.count/attempts-bounded-by-limit-plus-one")
			if runs > 0 {
				vfAssert(fails == runs || fails == runs-1, "C03.count/only-failed-attempts-are-repeated")
				if fails == runs {
					vfAssert(runs == lim[i]+1, "C03.count/failing-step-is-retried-until-limit")
				}
				vfAssert(g.nodes[i].data.State.RetryCount == runs-1, "C03.count/recorded-retry-count-equals-extra-attempts")
			}
			if !bc && !bs && pre[i] != 2 {
				vfAssert(runs >= 1, "C03.count/runnable-step-runs")
			}
		}
	}
	if cfg.dry {
		for h := 0; h < 4; h++ {
			vfAssert(vfCount("start", vfHandlerBase+h) == 0, "C03.dry/no-handler-command-in-dry-run")
		}
		return
	}
	if cfg.mon&vfMonC04 != 0 {
		allOK, anyErr, anyCancel := true, false, false
		for i := 0; i < cfg.n; i++ {
			if final[i] != NodeStatusSuccess && final[i] != NodeStatusSkipped {
				allOK = false
			}
			if final[i] == NodeStatusError {
				anyErr = true
			}
			if final[i] == NodeStatusCancel {
				anyCancel = true
			}
		}
		// A stop that arrives after every step has ended does not define the outcome
		// ("canceled iff it was stopped before completing"); the label is then timing-dependent.
		lateStop := stopped && !vfStopEarly
		st := sc.Status(g)
		if !lateStop {
			vfAssert((st == StatusSuccess) == allOK, "C04.run/succeeded-iff-every-step-finished-or-skipped")
			if !allOK {
				if !stopped {
					vfAssert(st == StatusError, "C04.run/unstopped-unsuccessful-run-is-failed")
				} else if !anyErr {
					vfAssert(st == StatusCancel, "C04.run/stopped-run-is-canceled")
				} else {
					vfAssert(st == StatusCancel || st == StatusError, "C04.run/stopped-and-failed-is-canceled-or-failed")
				}
			}
		}
		// invariant J used by C04.status (sequential obligation)
		hasErr := sc.lastError != nil
		hfail := false
		for h := 0; h < 4; h++ {
			if vfCount("endfail", vfHandlerBase+h) > 0 {
				hfail = true
			}
		}
		vfAssert(!anyErr || hasErr, "C04.inv/failed-step-implies-last-error")
		vfAssert(!hasErr || anyErr || anyCancel || hfail, "C04.inv/last-error-implies-failed-or-canceled-step")
		vfAssert(stopped || !anyCancel || hasErr, "C04.inv/canceled-step-without-stop-implies-last-error")
		// handlers: exactly the handler matching the outcome ran once, then onExit once and last.
		// outcome without / with the stop taken into account:
		wantNo, wantStop := 2, 3
		if allOK {
			wantNo, wantStop = 1, 1
		}
		cand := [4]bool{}
		switch {
		case !stopped:
			cand[wantNo] = true
		case vfStopEarly:
			cand[wantStop] = true
			if anyErr {
				cand[wantNo] = true // stopped and failed: either label is accepted
			}
		default:
			cand[wantNo], cand[wantStop] = true, true
		}
		ran, candAllConfigured, ncand := 0, true, 0
		for h := 1; h < 4; h++ {
			c := vfCount("start", vfHandlerBase+h)
			vfAssert(c <= 1, "C04.handlers/no-handler-runs-twice")
			if cand[h] {
				ncand++
				ran += c
				if !hs[h] {
					candAllConfigured = false
				}
			} else {
				vfAssert(c == 0, "C04.handlers/non-matching-handler-never-runs")
			}
			if !hs[h] {
				vfAssert(c == 0, "C04.handlers/unconfigured-handler-never-runs")
			}
		}
		vfAssert(ran <= 1, "C04.handlers/at-most-one-outcome-handler-runs")
		if candAllConfigured {
			vfAssert(ran == 1, "C04.handlers/matching-handler-runs-exactly-once")
		}
		ce := vfCount("start", vfHandlerBase)
		if hs[0] {
			vfAssert(ce == 1, "C04.handlers/exit-handler-runs-exactly-once")
			ie := vfEventIndex("start", vfHandlerBase, 0)
			for h := 1; h < 4; h++ {
				ih := vfLastEventIndex("end", vfHandlerBase+h)
				vfAssert(ih < ie, "C04.handlers/exit-handler-runs-last")
			}
		} else {
			vfAssert(ce == 0, "C04.handlers/unconfigured-exit-handler-never-runs")
		}
	}
	if cfg.mon&vfMonC05 != 0 && cfg.timeout {
		// expiry as seen by the engine (timer event) or, natively, by the executor (context done)
		expired := vfCount("timer-fired", -1) > 0 || vfCount("ctx-expired", -1) > 0
		iExp := vfEventIndex("timer-fired", -1, 0)
		if iExp < 0 {
			iExp = vfEventIndex("ctx-expired", -1, 0)
		}
		if expired {
			unfinishedAtExpiry := false
			for i := 0; i < cfg.n; i++ {
				// no command starts after the timeout has elapsed
				vfAssert(vfLastEventIndex("start", i) < iExp, "C05.timeout/no-step-command-starts-after-the-timeout")
				if vfCount("start", i) == 0 || vfLastEventIndex("end", i) > iExp {
					unfinishedAtExpiry = true
				}
				vfAssert(final[i] != NodeStatusRunning && final[i] != NodeStatusNone, "C05.timeout/every-step-is-labelled-when-the-run-ends")
			}
			failedBefore := false
			for i := 0; i < cfg.n; i++ {
				if k := vfEventIndex("endfail", i, 0); k >= 0 && k < iExp {
					failedBefore = true // a step had already failed on its own: "failed" is then a legitimate label
				}
			}
			if unfinishedAtExpiry && !failedBefore {
				st := sc.Status(g)
				if st != StatusCancel {
					vfClass("timed-out-run-ends-as-failed")
				}
				vfAssert(st == StatusCancel, "C05.timeout/timed-out-run-ends-canceled")
			}
		}
	}
	if cfg.mon&vfMonC05 != 0 && cfg.repeat {
		vfAssert(vfCount("kill", 0) == 0, "C05.repeat/repeating-step-is-not-signalled")
	}
	if cfg.mon&vfMonC05 != 0 && stopped {
		allOK := true
		for i := 0; i < cfg.n; i++ {
			vfAssert(final[i] != NodeStatusRunning, "C05.stop/no-step-left-running-when-the-run-ends")
			if final[i] != NodeStatusSuccess && final[i] != NodeStatusSkipped {
				allOK = false
			}
		}
		if vfStopEarly && !allOK {
			vfAssert(sc.Status(g) == StatusCancel, "C05.stop/stopped-run-ends-canceled")
			if hs[3] {
				vfAssert(vfCount("start", vfHandlerBase+3) == 1, "C05.stop/cancel-handler-runs")
			}
			if hs[0] {
				vfAssert(vfCount("start", vfHandlerBase) == 1, "C05.stop/exit-handler-runs")
			}
		}
	}
	_ = rerr
}

// ---- entries. Suffix: n<steps>[r<retry limit>]; "x" = extended configuration menu
// (nil retry policy, met preconditions, maxActiveRuns) on top of the base menu.

func VerifHarness_RUN_C01_n2() { vfRun(vfRunCfg{n: 2, mon: vfMonC01, retries: 1, preconds: true}) }
func VerifHarness_RUN_C01_n2x() {
	vfRun(vfRunCfg{n: 2, mon: vfMonC01, retries: 1, preconds: true, nilPolicy: true, metPre: true, maxact: true})
}
func VerifHarness_RUN_C01_n3() { vfRun(vfRunCfg{n: 3, mon: vfMonC01, retries: 1, preconds: true}) }
func VerifHarness_RUN_C01_n3r2() {
	vfRun(vfRunCfg{n: 3, mon: vfMonC01, retries: 2, preconds: true, maxact: true})
}
func VerifHarness_RUN_C01_n4() { vfRun(vfRunCfg{n: 4, mon: vfMonC01, retries: 1}) }

// C02: final-state containment (no stop).
func VerifHarness_RUN_C02_n2() { vfRun(vfRunCfg{n: 2, mon: vfMonC02, retries: 1, preconds: true}) }
func VerifHarness_RUN_C02_n2x() {
	vfRun(vfRunCfg{n: 2, mon: vfMonC02, retries: 1, preconds: true, nilPolicy: true, metPre: true, maxact: true})
}
func VerifHarness_RUN_C02_n3() { vfRun(vfRunCfg{n: 3, mon: vfMonC02, retries: 1, preconds: true}) }
func VerifHarness_RUN_C02_n3x() {
	vfRun(vfRunCfg{n: 3, mon: vfMonC02, retries: 2, preconds: true, maxact: true})
}
func VerifHarness_RUN_C02_n4() { vfRun(vfRunCfg{n: 4, mon: vfMonC02, retries: 1}) }

// C03: exactly once, retry bound; dry-run.
func VerifHarness_RUN_C03_n2() { vfRun(vfRunCfg{n: 2, mon: vfMonC03, retries: 2, preconds: true}) }
func VerifHarness_RUN_C03_n2x() {
	vfRun(vfRunCfg{n: 2, mon: vfMonC03, retries: 2, preconds: true, nilPolicy: true, maxact: true})
}
func VerifHarness_RUN_C03_n3()   { vfRun(vfRunCfg{n: 3, mon: vfMonC03, retries: 1, preconds: true}) }
func VerifHarness_RUN_C03_n3r2() { vfRun(vfRunCfg{n: 3, mon: vfMonC03, retries: 2, preconds: true}) }
func VerifHarness_RUN_C03_dry3() {
	vfRun(vfRunCfg{n: 3, mon: vfMonC03, retries: 1, preconds: true, handlers: true, dry: true})
}

// C04: outcome + handlers, with and without a stop request.
func VerifHarness_RUN_C04_n2() {
	vfRun(vfRunCfg{n: 2, mon: vfMonC04, retries: 1, preconds: true, handlers: true, stop: true})
}
func VerifHarness_RUN_C04_n2s() { vfRun(vfRunCfg{n: 2, mon: vfMonC04, handlers: true, stop: true}) }
func VerifHarness_RUN_C04_n3() {
	vfRun(vfRunCfg{n: 3, mon: vfMonC04, retries: 1, handlers: true, stop: true})
}

// C05: stop.
func VerifHarness_RUN_C05_n2() { vfRun(vfRunCfg{n: 2, mon: vfMonC05, retries: 1, stop: true}) }
func VerifHarness_RUN_C05_n2h() {
	vfRun(vfRunCfg{n: 2, mon: vfMonC05, retries: 1, stop: true, handlers: true})
}
func VerifHarness_RUN_C05_n3() { vfRun(vfRunCfg{n: 3, mon: vfMonC05, retries: 1, stop: true}) }

// C15: maxActiveRuns.
func VerifHarness_RUN_C15_n2() { vfRun(vfRunCfg{n: 2, mon: vfMonC15, retries: 1, maxact: true}) }
func VerifHarness_RUN_C15_n3() { vfRun(vfRunCfg{n: 3, mon: vfMonC15, retries: 1, maxact: true}) }
func VerifHarness_RUN_C15_n4() { vfRun(vfRunCfg{n: 4, mon: vfMonC15, maxact: true}) }

// C08: status snapshots persisted during the run.
func VerifHarness_RUN_C08_n2()    { vfRun(vfRunCfg{n: 2, mon: vfMonC08, retries: 1, preconds: true}) }
func VerifHarness_RUN_C08_n2any() { vfRun(vfRunCfg{n: 2, mon: vfMonC08, anyTurn: true}) }
func VerifHarness_RUN_C08_n3()    { vfRun(vfRunCfg{n: 3, mon: vfMonC08, retries: 1, preconds: true}) }

// C05.repeat: s0 repeats; a stop lets the current iteration finish and starts no further one.
func VerifHarness_RUN_C05_rep() { vfRun(vfRunCfg{n: 2, mon: vfMonC05, stop: true, repeat: true}) }

// C05.timeout: the DAG's timeout elapses at any quiescent point of the run.
func VerifHarness_RUN_C05_timeout() {
	vfRun(vfRunCfg{n: 2, mon: vfMonC05, retries: 1, timeout: true})
}

// "-any" variants: commands may end at any yield point of any thread (anyTurn), D=2.
func VerifHarness_RUN_C01_n2any() { vfRun(vfRunCfg{n: 2, mon: vfMonC01, retries: 1, anyTurn: true}) }
func VerifHarness_RUN_C02_n2any() { vfRun(vfRunCfg{n: 2, mon: vfMonC02, retries: 1, anyTurn: true}) }
func VerifHarness_RUN_C03_n2any() { vfRun(vfRunCfg{n: 2, mon: vfMonC03, retries: 1, anyTurn: true}) }
func VerifHarness_RUN_C04_n2any() {
	vfRun(vfRunCfg{n: 2, mon: vfMonC04, handlers: true, anyTurn: true})
}
func VerifHarness_RUN_C05_n2any() { vfRun(vfRunCfg{n: 2, mon: vfMonC05, stop: true, anyTurn: true}) }
func VerifHarness_RUN_C15_n2any() { vfRun(vfRunCfg{n: 2, mon: vfMonC15, maxact: true, anyTurn: true}) }
