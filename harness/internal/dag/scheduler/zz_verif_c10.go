package scheduler

import (
	"errors"
	"time"

	"github.com/ErdemOzgen/blackdagger/internal/logger"
)

var vfRecErr = errors.New("recorded error")

func vfQuietLogger() logger.Logger {
	return logger.NewLogger(logger.NewLoggerArgs{Quiet: true})
}

// C10.reset: NewExecutionGraphForRetry resets exactly R = U ∪ descendants(U), where
// U = nodes recorded failed / canceled / running, and keeps every other node bit-for-bit.
func vfHarnessC10Reset(n int) { vfHarnessC10ResetOrder(n, false) }

// permuted: the recorded steps are handed over in an arbitrary declaration order (the
// builder does not sort steps; a dependant may be declared before its upstream step)
func vfHarnessC10ResetOrder(n int, permuted bool) {
	steps := vfBuildSteps(n)
	rec := make([]NodeState, n)
	nodes := make([]*Node, n)
	t0 := time.Unix(1700000000, 0)
	for i := 0; i < n; i++ {
		rec[i] = NodeState{
			Status:     NodeStatus(vfRange("rec.status", 0, 5)),
			Log:        "/log/" + vfNames[i],
			StartedAt:  t0,
			FinishedAt: t0,
			RetryCount: vfRange("rec.retry", 0, 2),
			DoneCount:  vfRange("rec.done", 0, 2),
		}
		if rec[i].Status == NodeStatusError {
			rec[i].Error = vfRecErr
		}
		nodes[i] = NewNode(steps[i], rec[i])
	}
	order := make([]int, n) // order[k] = index of the step declared k-th
	for i := range order {
		order[i] = i
	}
	if permuted {
		// Fisher-Yates over choices: every permutation
		for i := n - 1; i > 0; i-- {
			j := vfChoice("perm", i+1)
			order[i], order[j] = order[j], order[i]
		}
	}
	declared := make([]*Node, n)
	for k, i := range order {
		declared[k] = nodes[i]
	}
	g, err := NewExecutionGraphForRetry(vfQuietLogger(), declared...)
	vfAssume(err == nil)

	// oracle: independent reachability over Step.Depends
	inR := make([]bool, n)
	for i := 0; i < n; i++ { // steps are topologically ordered by construction (deps j<i)
		s := rec[i].Status
		if s == NodeStatusError || s == NodeStatusCancel || s == NodeStatusRunning {
			inR[i] = true
			if s == NodeStatusRunning {
				vfClass("recorded-node-status=running")
			}
		}
		for j := 0; j < i; j++ {
			if inR[j] && vfDependsOn(steps[i], vfNames[j]) {
				inR[i] = true
			}
		}
	}
	for k, nd := range g.Nodes() {
		i := order[k]
		st := nd.State()
		if inR[i] {
			vfAssert(st.Status == NodeStatusNone, "C10.reset/unfinished-or-downstream-step-is-reset-to-not-started")
			vfAssert(st.RetryCount == 0 && st.DoneCount == 0 && st.Error == nil && st.Log == "" &&
				st.StartedAt.IsZero() && st.FinishedAt.IsZero(), "C10.reset/reset-step-state-is-zeroed")
		} else {
			vfAssert(st.Status == rec[i].Status, "C10.reset/other-step-keeps-recorded-status")
			vfAssert(st.RetryCount == rec[i].RetryCount && st.DoneCount == rec[i].DoneCount && st.Log == rec[i].Log &&
				st.Error == rec[i].Error && st.StartedAt.Equal(rec[i].StartedAt) && st.FinishedAt.Equal(rec[i].FinishedAt),
				"C10.reset/other-step-keeps-recorded-results")
		}
	}
	vfReach("end")
}

func VerifHarness_C10_reset3()     { vfHarnessC10Reset(3) }
func VerifHarness_C10_reset4()     { vfHarnessC10Reset(4) }
func VerifHarness_C10_resetperm3() { vfHarnessC10ResetOrder(3, true) }
func VerifHarness_C10_resetperm4() { vfHarnessC10ResetOrder(4, true) }
