package dag

// VfBuildParams runs the real builder in evaluating mode on a minimal definition whose
// parameter string is src; override (if not empty) is the parameter string given at start
// (what retry and restart pass). Exported for the parameter harness of package model.
func VfBuildParams(src, override string) ([]string, error) {
	def := vfBaseDef()
	def.Params = src
	b := &builder{opts: buildOpts{parameters: override}}
	d, err := b.build(def, nil)
	if err != nil {
		return nil, err
	}
	return d.Params, nil
}
