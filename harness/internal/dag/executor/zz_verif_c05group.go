package executor

import (
	"bufio"
	"context"
	"os"
	"os/exec"
	"strconv"
	"strings"
	"syscall"
	"time"

	"github.com/ErdemOzgen/blackdagger/internal/dag"
)

// C05.group: the stop signal of a command step reaches the step's whole process group (the
// command and whatever it has spawned), not only the direct child. Symbolically: the real
// commandExecutor.Kill on a started command with an arbitrary pid issues exactly one
// kill(2), addressed to the group (-pid), with the given signal. Natively (replay): a real
// `sh` with a background grandchild is started through the real newCommand and must be gone
// after Kill.
func VerifHarness_C05_group() {
	const label = "C05.group/stop-signal-reaches-the-whole-process-group-of-the-step"
	if vfNative() {
		step := dag.Step{Name: "s", Command: "sh", Args: []string{"-c", "sleep 60 & echo $!; wait"}, OutputVariables: &dag.SyncMap{}}
		ctx := dag.NewContext(context.Background(), &dag.DAG{}, nil, "req", "/tmp/x.log")
		ex, err := newCommand(ctx, step)
		if err != nil {
			panic(err)
		}
		pr, pw, _ := os.Pipe()
		ex.SetStdout(pw)
		ex.SetStderr(pw)
		done := make(chan error, 1)
		go func() { done <- ex.Run() }()
		line, _ := bufio.NewReader(pr).ReadString('\n')
		gpid, _ := strconv.Atoi(strings.TrimSpace(line))
		_ = ex.Kill(syscall.SIGTERM)
		gone := false
		for i := 0; i < 100 && !gone; i++ {
			time.Sleep(20 * time.Millisecond)
			gone = gpid > 0 && syscall.Kill(gpid, 0) != nil
		}
		if !gone && gpid > 0 {
			_ = syscall.Kill(gpid, syscall.SIGKILL)
		}
		select {
		case <-done:
		case <-time.After(3 * time.Second):
		}
		_ = pw.Close()
		vfAssert(gone, label)
		vfReach("end")
		return
	}
	pid := vfRange("pid", 2, 4194304)
	sig := syscall.Signal(vfRange("sig", 1, 31))
	e := &commandExecutor{cmd: &exec.Cmd{Process: &os.Process{Pid: pid}}}
	err := e.Kill(sig)
	vfAssert(err == nil && vfCount("kill", -pid) == 1 && vfCount("kill", -1) == 1, label)
	vfReach("end")
}
