package executor

import (
	"context"
	"os"
	"strings"

	"github.com/ErdemOzgen/blackdagger/internal/dag"
)

// C11.see: a value captured with `output: NAME` (Node.Execute puts it into the process
// environment, decided by C11.out) is what the child process of every later step sees
// under that name. The real newCommand assembles the child's environment; a process sees
// the LAST definition of a name in it (os/exec keeps the last duplicate).
func VerifHarness_C11_see() {
	const name = "VFOUT"
	value := vfString("value", 4)
	vfAssume(!strings.Contains(value, "\x00"))
	os.Unsetenv(name)
	// an earlier step captured NAME=value
	vfAssume(os.Setenv(name, value) == nil)
	// the later step: its Variables are the DAG's own env block and named parameters
	var vars []string
	switch vfChoice("dagEnv", 3) {
	case 1:
		vars = append(vars, "OTHER="+vfString("other", 4))
	case 2:
		// the DAG's env block (or a named parameter) defines the same name
		vars = append(vars, name+"="+vfString("old", 4))
		vfClass("output-name-also-defined-by-the-dag-env-or-a-named-parameter")
	}
	step := dag.Step{Name: "later", Command: "true", Variables: vars, OutputVariables: &dag.SyncMap{}}
	ctx := dag.NewContext(context.Background(), &dag.DAG{}, nil, "req", "/log/x.log")
	ex, err := newCommand(ctx, step)
	vfAssume(err == nil)
	env := ex.(*commandExecutor).cmd.Env
	seen, found := "", false
	for _, kv := range env {
		if strings.HasPrefix(kv, name+"=") {
			seen, found = kv[len(name)+1:], true
		}
	}
	vfAssert(found && seen == value, "C11.see/later-step-child-process-sees-the-captured-value")
	vfReach("end")
}
