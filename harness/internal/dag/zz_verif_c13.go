package dag

import (
	"encoding/json"

	"golang.org/x/sys/unix"

	"os"
	"path/filepath"
	"strings"
)

// C13 / C19: the builder, started from the decoded definition (DESIGN.md 6/C13).
// One field group at a time gets the full shape menu; all other fields are held at a
// fixed well-formed value. Panics anywhere in build are violations (C13.nopanic);
// accepted DAGs must be well formed (C13.wellformed); non-evaluating loads must not
// execute commands or touch the environment (C19.pure).

var vfL = 6 // bytes per symbolic string

var vfStrs []string // every symbolic string drawn (native mode: used to plant exec canaries)

func vfS(tag string) string {
	s := vfString(tag, vfL)
	vfStrs = append(vfStrs, s)
	return s
}

// string leaf: a symbolic string, or one of the constants the group declares interesting
var vfConsts []string    // value positions
var vfKeyConsts []string // map-key positions

func vfStrLeaf(tag string) string {
	if k := vfChoice(tag+".str", 1+len(vfConsts)); k > 0 {
		return vfConsts[k-1]
	}
	return vfS(tag + ".s")
}

func vfKeyLeaf(tag string) string {
	if k := vfChoice(tag+".str", 1+len(vfKeyConsts)); k > 0 {
		return vfKeyConsts[k-1]
	}
	return vfS(tag + ".s")
}

// number of option sets explored: 3 = LoadYAML, LoadMetadata, Load; 2 = the non-evaluating ones only
var vfOptN = 3

// scalar values a YAML document can decode to. Inner levels use {nil, string, int}
// ("not a string" has one representative); the top level adds bool and float64.
func vfScalar(tag string, top bool) any {
	kinds := 3
	if top {
		kinds = 5
	}
	switch vfChoice(tag+".kind", kinds) {
	case 0:
		return nil
	case 1:
		return vfStrLeaf(tag)
	case 2:
		return vfInt(tag + ".i")
	case 3:
		return vfBool(tag + ".b")
	}
	return 1.5
}

// untyped tree: scalar | []any (0..2) | map[any]any (0..2 entries at the top, 0..1 below;
// keys are strings, the first key may also be an int) to the given depth
func vfTreeAt(tag string, depth int, top bool) any {
	shapes := 3
	if depth <= 0 {
		shapes = 1
	}
	switch vfChoice(tag+".shape", shapes) {
	case 1:
		n := vfChoice(tag+".len", 3)
		l := make([]any, 0, n)
		for i := 0; i < n; i++ {
			l = append(l, vfTreeAt(tag+".e", depth-1, false))
		}
		return l
	case 2:
		mx := 2
		if top {
			mx = 3
		}
		n := vfChoice(tag+".size", mx)
		m := map[any]any{}
		for i := 0; i < n; i++ {
			var k any
			if i > 0 || vfChoice(tag+".keykind", 2) == 0 {
				k = vfKeyLeaf(tag + ".key")
			} else {
				k = vfInt(tag + ".ikey")
			}
			m[k] = vfTreeAt(tag+".v", depth-1, false)
		}
		return m
	}
	return vfScalar(tag, top)
}

func vfTree(tag string, depth int) any { return vfTreeAt(tag, depth, true) }

func vfGoodStep(name string) *stepDef {
	return &stepDef{Name: name, Command: "true"}
}

func vfBaseDef() *definition {
	return &definition{Name: "d", Steps: []*stepDef{vfGoodStep("a")}}
}

// 0 LoadYAML / LoadWithoutEval (full, noEval) ; 1 LoadMetadata ; 2 Load (evaluating)
func vfOpts(k int) buildOpts {
	switch k {
	case 0:
		return buildOpts{noEval: true}
	case 1:
		return buildOpts{noEval: true, metadataOnly: true}
	}
	return buildOpts{}
}

// ---- side-effect observation (C19): ghost events symbolically, canaries natively

var (
	vfCanaryDir string
	vfEnvBefore []string
	vfOldPath   string
)

func vfEffectsBegin() {
	if !vfNative() {
		vfEvent("effects-begin", 0, 0)
		return
	}
	vfCanaryDir, _ = os.MkdirTemp("", "vfcanary")
	canary := filepath.Join(vfCanaryDir, "canary")
	// the k-th command started exits as the k-th recorded exec outcome of the model
	outcomes := ""
	for _, v := range vfRecorded("subst.ok", "exec.ok") {
		if v == "true" {
			outcomes += "0"
		} else {
			outcomes += "1"
		}
	}
	_ = os.WriteFile(filepath.Join(vfCanaryDir, "outcomes"), []byte(outcomes), 0644)
	script := "#!/bin/sh\necho x >> " + canary + "\nn=$(/usr/bin/wc -l < " + canary + ")\nc=$(/usr/bin/cut -c$n " + filepath.Join(vfCanaryDir, "outcomes") + ")\n[ \"$c\" = 1 ] && exit 1\nexit 0\n"
	names := []string{"sh"}
	for _, s := range vfStrs {
		parts := strings.Split(s, "`")
		for i := 1; i < len(parts); i += 2 {
			f := strings.Fields(parts[i])
			if len(f) > 0 && !strings.Contains(f[0], "/") {
				names = append(names, f[0])
			}
		}
	}
	for _, n := range names {
		_ = os.WriteFile(filepath.Join(vfCanaryDir, n), []byte(script), 0755)
	}
	vfOldPath = os.Getenv("PATH")
	os.Setenv("PATH", vfCanaryDir)
	vfEnvBefore = os.Environ()
}

// returns (commands executed, environment changes)
func vfEffectsEnd() (int, int) {
	if !vfNative() {
		b := vfLastEventIndex("effects-begin", -1)
		ex, se := 0, 0
		if i := vfLastEventIndex("exec", -1); i > b {
			ex = 1
		}
		if i := vfLastEventIndex("setenv", -1); i > b {
			se = 1
		}
		return ex, se
	}
	after := os.Environ()
	changed := 0
	if len(after) != len(vfEnvBefore) {
		changed = 1
	} else {
		for i := range after {
			if after[i] != vfEnvBefore[i] {
				changed = 1
			}
		}
	}
	execs := 0
	if _, err := os.Stat(filepath.Join(vfCanaryDir, "canary")); err == nil {
		execs = 1
	}
	os.Setenv("PATH", vfOldPath)
	os.RemoveAll(vfCanaryDir)
	return execs, changed
}

func vfRunnable(s *Step) bool {
	return s.Command != "" || s.CmdWithArgs != "" || s.SubWorkflow != nil ||
		(s.ExecutorConfig.Type != "" && s.ExecutorConfig.Type != "command")
}

// common tail: run build under the option set, check C13/C19 obligations
func vfBuildAndCheck(def *definition, optk int) {
	opts := vfOpts(optk)
	vfEffectsBegin()
	b := &builder{opts: opts}
	d, err := b.build(def, nil)
	execs, envs := vfEffectsEnd()
	if opts.noEval {
		vfAssert(execs == 0, "C19.pure/non-evaluating-load-executes-no-command")
		vfAssert(envs == 0, "C19.pure/non-evaluating-load-leaves-environment-unchanged")
	}
	if err != nil {
		vfAssert(d == nil, "C13.wellformed/error-means-no-dag")
		vfReach("rejected")
		vfReach("end")
		return
	}
	vfReach("accepted")
	if !opts.metadataOnly {
		d.Location = "/dags/d.yaml"
		d.setup()
		for i := range d.Steps {
			s := &d.Steps[i]
			vfAssert(s.Name != "", "C13.wellformed/accepted-step-has-a-name")
			vfAssert(vfRunnable(s), "C13.wellformed/accepted-step-has-something-to-execute")
			vfAssert(s.SignalOnStop == "" || unix.SignalNum(s.SignalOnStop) != 0, "C13.wellformed/accepted-signal-name-is-valid")
			_, jerr := json.Marshal(s)
			if jerr != nil {
				vfClass("executor-config-not-json-serialisable")
			}
			vfAssert(jerr == nil, "C13.serial/accepted-step-is-json-serialisable")
		}
		for _, h := range []*Step{d.HandlerOn.Exit, d.HandlerOn.Success, d.HandlerOn.Failure, d.HandlerOn.Cancel} {
			if h != nil {
				vfAssert(h.Name != "", "C13.wellformed/accepted-handler-has-a-name")
				vfAssert(vfRunnable(h), "C13.wellformed/accepted-handler-has-something-to-execute")
			}
		}
	}
	for _, sch := range [][]Schedule{d.Schedule, d.StopSchedule, d.RestartSchedule} {
		for _, s := range sch {
			vfAssert(s.Parsed != nil, "C13.wellformed/kept-schedule-expression-was-parsed")
		}
	}
	vfReach("end")
}

// ---- field groups

func VerifHarness_C13_schedule() {
	def := vfBaseDef()
	vfConsts = []string{"* * * * *"}
	vfKeyConsts = []string{"start"}
	def.Schedule = vfTree("sched", 2)
	vfBuildAndCheck(def, vfChoice("opts", vfOptN))
}

// env: a map, or a list of maps (the documented forms), plus every other shallow shape
func VerifHarness_C13_env() {
	def := vfBaseDef()
	switch vfChoice("env.form", 3) {
	case 0:
		def.Env = vfTree("env", 1) // nil | scalar | list of scalars | map of scalars (string / int keys)
	case 1:
		// list of 1..2 single-entry maps; keys string or int, values any scalar
		n := 1 + vfChoice("env.len", 2)
		l := make([]any, 0, n)
		for i := 0; i < n; i++ {
			var k any
			if vfChoice("env.keykind", 2) == 0 {
				k = vfS("env.key")
			} else {
				k = vfInt("env.ikey")
			}
			l = append(l, map[any]any{k: vfScalar("env.v", false)})
		}
		def.Env = l
	case 2:
		// nested values: a map whose value is itself a list or a map; a list holding a list
		if vfChoice("env.nest", 2) == 0 {
			def.Env = map[any]any{vfS("env.key"): vfTreeAt("env.v", 1, false)}
		} else {
			def.Env = []any{vfTreeAt("env.e", 1, false)}
		}
	}
	vfBuildAndCheck(def, vfChoice("opts", vfOptN))
}

func VerifHarness_C13_tags() {
	def := vfBaseDef()
	def.Tags = vfTree("tags", 1)
	vfBuildAndCheck(def, vfChoice("opts", vfOptN))
}

// params: the parameter string alone (non-evaluating option sets; parameter parsing under
// evaluation is outside the claim, DESIGN.md section 7)
func VerifHarness_C13_params() {
	def := vfBaseDef()
	def.Params = vfS("params")
	vfBuildAndCheck(def, vfChoice("opts", 2))
}

func VerifHarness_C13_strings() {
	// string-valued top-level fields (C19: command substitutions planted anywhere)
	def := vfBaseDef()
	optk := vfChoice("opts", vfOptN)
	// (the parameter string has its own group: VerifHarness_C13_params)
	def.LogDir = vfS("logDir")
	def.SMTP.Host = vfS("smtp.host")
	def.ErrorMail.From = vfS("mail.from")
	if vfChoice("hasPre", 2) == 1 {
		def.Preconditions = []*conditionDef{{Condition: vfS("pre.cond"), Expected: vfS("pre.exp")}}
	}
	vfBuildAndCheck(def, optk)
}

// ---- step groups: one step definition with the full menu for one of its untyped fields

// values an executor config key can hold (depth 3 along the spine the builder walks)
func vfCfgValue(tag string) any {
	switch vfChoice(tag+".form", 8) {
	case 0:
		return vfScalar(tag, false)
	case 1:
		return []any{vfScalar(tag+".e", false)}
	case 2:
		return []any{map[any]any{vfS(tag + ".lk"): vfScalar(tag+".lv", false)}}
	case 3:
		return map[any]any{vfS(tag + ".mk"): vfScalar(tag+".mv", false)}
	case 4:
		return map[any]any{vfInt(tag + ".ik"): vfScalar(tag+".mv", false)}
	case 5:
		return map[any]any{vfS(tag + ".mk"): map[any]any{vfS(tag + ".mk2"): vfScalar(tag+".mv2", false)}}
	case 6:
		return map[any]any{vfS(tag + ".mk"): map[any]any{vfInt(tag + ".ik2"): vfScalar(tag+".mv2", false)}}
	}
	return map[any]any{vfS(tag + ".mk"): []any{map[any]any{vfS(tag + ".mk3"): 1}}}
}

func vfExecutorTree() any {
	switch vfChoice("exec.form", 3) {
	case 0:
		return vfTree("exec", 1) // nil | scalar | short list | small map with arbitrary keys
	case 1:
		// {type: T, config: {k: v}} -- the spine the builder inspects
		m := map[any]any{}
		if vfChoice("exec.hasType", 2) == 1 {
			m["type"] = vfScalar("exec.type", false)
		}
		switch vfChoice("exec.config", 4) {
		case 1:
			m["config"] = vfScalar("exec.cfg", false)
		case 2:
			m["config"] = map[any]any{vfS("exec.cfg.key"): vfCfgValue("exec.cfg.v")}
		case 3:
			m["config"] = map[any]any{vfInt("exec.cfg.ikey"): 1, vfS("exec.cfg.key"): vfScalar("exec.cfg.v", false)}
		}
		return m
	}
	return map[any]any{vfKeyLeaf("exec.k"): vfScalar("exec.v", false)}
}

func vfStepName() string {
	if vfChoice("step.named", 2) == 1 {
		return "a"
	}
	return vfS("step.name")
}

func VerifHarness_C13_step() {
	def := &definition{Name: "d"}
	vfConsts = []string{""}
	sd := &stepDef{Name: "a", Command: "true"}
	def.Steps = []*stepDef{sd}
	switch vfChoice("dim", 4) {
	case 0: // what the step executes: command tree / sub-workflow / both; symbolic or fixed name
		sd.Name = vfStepName()
		sd.Command = nil
		switch vfChoice("step.form", 3) {
		case 0:
			sd.Command = vfTree("cmd", 1)
		case 1:
			sd.Run = vfS("run")
			sd.Params = vfS("run.params")
		case 2:
			sd.Command = vfTree("cmd", 1)
			sd.Run = vfS("run")
		}
	case 1: // policies, signal, string fields
		sd.ContinueOn = &continueOnDef{Failure: vfBool("cof"), Skipped: vfBool("cos")}
		sd.RetryPolicy = &retryPolicyDef{Limit: vfInt("limit"), IntervalSec: vfInt("ivl")}
		sd.RepeatPolicy = &repeatPolicyDef{Repeat: vfBool("rep"), IntervalSec: vfInt("rivl")}
		sig := vfS("signal")
		sd.SignalOnStop = &sig
		sd.Script, sd.Stdout, sd.Stderr, sd.Output, sd.Dir = vfS("script"), vfS("stdout"), vfS("stderr"), vfS("output"), vfS("dir")
	case 2: // step preconditions (null items included)
		if vfChoice("step.pre", 2) == 0 {
			sd.Preconditions = []*conditionDef{{Condition: vfS("spre.cond"), Expected: vfS("spre.exp")}}
		} else {
			sd.Preconditions = []*conditionDef{nil}
		}
	case 3: // shape of the step list
		switch vfChoice("steps.shape", 3) {
		case 0:
			def.Steps = []*stepDef{nil}
		case 1:
			def.Steps = []*stepDef{vfGoodStep("b"), sd, nil}
		case 2:
			def.Steps = []*stepDef{}
		}
	}
	vfBuildAndCheck(def, vfChoice("opts", vfOptN))
}

func VerifHarness_C13_executor() {
	def := &definition{Name: "d"}
	vfConsts = []string{"command", ""}
	sd := &stepDef{Name: vfStepName()}
	sd.Executor = vfExecutorTree()
	// a command next to the executor only for the plain forms (the config spine keeps its own menu)
	if m, ok := sd.Executor.(map[any]any); !ok || len(m) <= 1 {
		switch vfChoice("step.alsoCmd", 3) {
		case 1:
			sd.Command = vfStrLeaf("cmd")
		case 2:
			sd.Command = []any{}
		}
	}
	def.Steps = []*stepDef{sd}
	vfBuildAndCheck(def, vfChoice("opts", vfOptN))
}

// function calls: steps that call a declared (or undeclared) function
func VerifHarness_C13_call() {
	def := &definition{Name: "d"}
	switch vfChoice("fns.shape", 4) {
	case 1:
		def.Functions = []*funcDef{nil}
	case 2:
		def.Functions = []*funcDef{{Name: "f", Params: "x", Command: "echo $x"}}
	case 3:
		def.Functions = []*funcDef{{Name: vfS("fn.name"), Params: vfS("fn.params"), Command: "echo $x"}}
	}
	sd := &stepDef{Name: "a"}
	call := &callFuncDef{}
	if vfChoice("call.known", 2) == 1 {
		call.Function = "f"
	} else {
		call.Function = vfS("call.fn")
	}
	switch vfChoice("call.args", 3) {
	case 1:
		call.Args = map[string]any{vfS("arg.k"): vfScalar("arg.v", true)}
	case 2:
		call.Args = map[string]any{"x": vfScalar("arg.v", true)}
	}
	sd.Call = call
	def.Steps = []*stepDef{sd}
	vfBuildAndCheck(def, vfChoice("opts", vfOptN))
}

// handlers, DAG-level pointers and lists: one dimension at a time carries its menu
func VerifHarness_C13_handlers() {
	def := vfBaseDef()
	switch vfChoice("dim", 4) {
	case 0: // shape of a handler step
		switch vfChoice("h.exit", 3) {
		case 0:
			def.HandlerOn.Exit = &stepDef{Command: vfTree("h.exit.cmd", 1)}
		case 1:
			def.HandlerOn.Exit = &stepDef{Name: vfS("h.exit.name"), Executor: vfScalar("h.exit.exec", false)}
		case 2:
			def.HandlerOn.Exit = &stepDef{}
		}
	case 1: // preconditions of a handler step (null items included)
		def.HandlerOn.Exit = &stepDef{Command: "true"}
		if vfChoice("h.exit.pre", 2) == 1 {
			def.HandlerOn.Exit.Preconditions = []*conditionDef{nil}
		} else {
			def.HandlerOn.Exit.Preconditions = []*conditionDef{{Condition: vfS("h.pre.cond"), Expected: vfS("h.pre.exp")}}
		}
	case 2: // the other three handlers
		def.HandlerOn.Failure = &stepDef{Command: vfScalar("h.fail.cmd", false)}
		def.HandlerOn.Success = &stepDef{Command: "true"}
		def.HandlerOn.Cancel = &stepDef{Run: vfS("h.cancel.run")}
		if vfChoice("h.cancel.pre", 2) == 1 {
			def.HandlerOn.Cancel.Preconditions = []*conditionDef{nil}
		}
	case 3: // DAG-level lists and pointers
		switch vfChoice("d.pre", 3) {
		case 1:
			def.Preconditions = []*conditionDef{nil}
		case 2:
			def.Preconditions = []*conditionDef{{Condition: vfS("pre.cond"), Expected: vfS("pre.exp")}}
		}
		if vfChoice("d.ptrs", 2) == 1 {
			h, m := vfInt("hist"), vfInt("cleanup")
			def.HistRetentionDays, def.MaxCleanUpTimeSec = &h, &m
			def.MailOn = &mailOnDef{Failure: vfBool("mf"), Success: vfBool("ms")}
		}
	}
	vfBuildAndCheck(def, vfChoice("opts", vfOptN))
}

// C13.precond: evaluating the preconditions of an accepted DAG never crashes, whatever
// the condition, the expected pattern ("re:" patterns valid or not) and the command output.
func VerifHarness_C13_precond() {
	conds := []Condition{{Condition: vfS("cond"), Expected: vfS("expected")}}
	if vfChoice("re", 2) == 1 {
		conds[0].Expected = "re:" + vfS("pattern")
	}
	if vfChoice("two", 2) == 1 {
		conds = append(conds, Condition{Condition: "x", Expected: "x"})
	}
	_ = EvalConditions(conds)
	vfReach("evaluated")
	vfReach("end")
}

// C19 entries: the non-evaluating option sets only
func VerifHarness_C19_schedule() { vfOptN = 2; VerifHarness_C13_schedule() }
func VerifHarness_C19_env()      { vfOptN = 2; VerifHarness_C13_env() }
func VerifHarness_C19_tags()     { vfOptN = 2; VerifHarness_C13_tags() }
func VerifHarness_C19_strings()  { vfOptN = 2; VerifHarness_C13_strings() }
func VerifHarness_C19_params()   { vfOptN = 2; VerifHarness_C13_params() }
func VerifHarness_C19_step()     { vfOptN = 2; VerifHarness_C13_step() }
func VerifHarness_C19_executor() { vfOptN = 2; VerifHarness_C13_executor() }
func VerifHarness_C19_call()     { vfOptN = 2; VerifHarness_C13_call() }
func VerifHarness_C19_handlers() { vfOptN = 2; VerifHarness_C13_handlers() }
