package cmd

import (
	"fmt"
	"strings"
	"unicode/utf8"

	"github.com/ErdemOzgen/blackdagger/internal/client"
)

// C20.params: the parameter string handed to client.Start is spawned as
// `start --params="<escapeArg(p)>"`; the start command recovers it with removeQuotes.
// The round trip over the three real functions must be the identity.
func vfHarnessC20Params(n int) {
	p := vfStringN("params", n)
	// the API layer hands over decoded JSON strings: well-formed UTF-8 (any bytes under -bytes)
	vfAssume(utf8.ValidString(p))
	arg := fmt.Sprintf(`"%s"`, client.VfEscapeArg(p))
	got := removeQuotes(arg)
	if strings.Contains(p, "\r") || strings.Contains(p, "\n") {
		vfClass("parameter-contains-CR-or-LF")
	}
	vfAssert(got == p, "C20.params/parameters-reach-the-started-run-unchanged")
	vfReach("end")
}

func VerifHarness_C20_params3() {
	vfHarnessC20Params(vfChoice("len", 4))
}
func VerifHarness_C20_params4() {
	vfHarnessC20Params(vfChoice("len", 5))
}
func VerifHarness_C20_params6() {
	vfHarnessC20Params(vfChoice("len", 7))
}
