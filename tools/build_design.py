#!/usr/bin/env python3
"""Re-assembles section 10 of DESIGN.md from design/*.md and the seeded-change table."""
import subprocess, re
base = "/verif/"
s = open(base + "DESIGN.md").read()
table = subprocess.check_output(["python3", base + "tools/seed_meta.py", "--table"]).decode()
sec = open(base + "design/section10_head.md").read() + "\n" + open(base + "design/section10_findings.md").read()
sec += "\n### 10.6 Seeded changes and which checks catch them\n\n"
sec += ("Each change was produced by a fresh sub-agent (property text + scratch worktree only), confirmed by me in that worktree\n"
        "(`tools/seed_verify.sh`: builds, full suite shows only the baseline failures, demonstration fails with / passes without the change),\n"
        "stored under `seeded/<id>/` (patch.diff, demonstration, agent_notes.md, verify.log, eval logs, meta.json) and run against the checks with\n"
        "`tools/seed_eval.sh` (patch applied to a scratch worktree of `/repo` HEAD passed to the checks as `VERIF_REPO`; `/repo` itself is never modified).\n"
        "`->1` = the check exits 1 with a `VIOLATION` line, `->0` = it stays quiet (a miss for that check), `->2` = inconclusive.\n\n")
sec += table
sec += open(base + "design/section10_tail.md").read()
begin, end = "<!-- SECTION10 BEGIN -->", "<!-- SECTION10 END -->"
block = begin + "\n" + sec + "\n" + end + "\n\n"
if begin in s:
    s = re.sub(re.escape(begin) + r".*?" + re.escape(end) + r"\n\n", lambda m: block, s, flags=re.S)
else:
    marker = "## Appendix A"
    i = s.index(marker)
    # keep the rule line before the appendix
    s = s[:i] + block + "---------------------------------------------------------------------------------------\n\n" + s[i:]
open(base + "DESIGN.md", "w").write(s)
print("DESIGN.md section 10 rebuilt (%d bytes)" % len(sec))
