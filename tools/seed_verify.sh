#!/bin/bash
# seed_verify.sh <prop> <variant> : confirm a sub-agent's mutation in its scratch worktree and store it under /verif/seeded/
# usage: tools/seed_verify.sh C02 A
set -u
P=$1; V=$2; WT=${SEEDWT:-/tmp/wt_$P}; OUT=$WT/${SEEDOUT:-_out}/$V; ID=${SEEDID:-${P}_$V}; D=/verif/seeded/$ID
# round 2: SEEDWT=/tmp/wt2_C11 SEEDOUT=_seed SEEDID=C11_C tools/seed_verify.sh C11 A
export GOFLAGS=-mod=mod GOPROXY=off GOSUMDB=off GOTOOLCHAIN=local
mkdir -p $D
cp $OUT/patch.diff $D/patch.diff
cp $OUT/notes.md $D/agent_notes.md 2>/dev/null
DEMO=$(ls $OUT/*_test.go 2>/dev/null | head -1)
# with several demo files prefer the one for the package named first in the notes
for f in $OUT/*_test.go; do b=$(basename $f); if grep -qE "(internal|cmd)[A-Za-z0-9_/.-]*/$b" $OUT/notes.md; then DEMO=$f; break; fi; done
[ -n "$DEMO" ] && cp $DEMO $D/
cd $WT || exit 2
git checkout -q -- . ; git clean -fdq -e _out -e _seed
# where does the demo go? first "internal/..." or "cmd/..." path ending in _test.go mentioned in notes
DEST=$(grep -oE "(internal|cmd)[A-Za-z0-9_/.-]*/$(basename $DEMO)" $OUT/notes.md | head -1)
[ -z "$DEST" ] && { PK=$(grep -m1 '^package ' $DEMO | awk '{print $2}'); DEST=$(grep -rl --include=*.go "^package $PK\$" $WT/internal $WT/cmd 2>/dev/null | grep -v "_out\|_seed" | head -1 | xargs dirname | sed "s|$WT/||")/$(basename $DEMO); }
[ -z "$DEST" ] && DEST=$(grep -ohE '(internal|cmd)[A-Za-z0-9_/.-]*_test\.go' $OUT/*.md $OUT/*.log 2>/dev/null | head -1)
PKG=./$(dirname "$DEST")
TESTS=$(grep -oE '^func (Test[A-Za-z0-9_]*)' $DEMO | sed 's/func //' | paste -sd'|')
{
echo "== demo $DEMO -> $DEST ; tests: $TESTS"
cp $DEMO $WT/$DEST
echo "== demo on unchanged tree (must pass)"
go test -vet=off -count=1 -run "^($TESTS)\$" $PKG 2>&1 | tail -5; R0=${PIPESTATUS[0]}
git apply $D/patch.diff || { echo "PATCH DOES NOT APPLY"; exit 3; }
echo "== build with change"; go build ./... ; RB=$?
echo "== demo with change (must fail)"
go test -vet=off -count=1 -run "^($TESTS)\$" $PKG 2>&1 | tail -15; R1=${PIPESTATUS[0]}
rm -f $WT/$DEST
echo "== full suite with change"
go test -vet=off -count=1 -timeout 20m ./... 2>&1 | grep -E "^(FAIL|---|ok|panic)" | grep -v "^ok" > /tmp/seed_suite_$ID.txt; cat /tmp/seed_suite_$ID.txt
SUITE=ok
for pk in $(grep -E "^FAIL\s" /tmp/seed_suite_$ID.txt | awk '{print $2}' | grep -v "internal/client$" | grep -v "persistence/jsondb$"); do
  echo "== re-running $pk (timing-based tests; machine is loaded)"
  go test -vet=off -count=1 -timeout 20m $pk 2>&1 | grep -E "^(FAIL|---|ok|panic)" | tee /tmp/seed_rerun_$ID.txt
  grep -q "^ok" /tmp/seed_rerun_$ID.txt || SUITE=FAIL
done
# baseline packages may only fail in the known tests
grep -E "^\s*--- FAIL" /tmp/seed_suite_$ID.txt | grep -v "TestClient_RunDAG\|TestWriterErrorHandling" | grep -q . && [ "$SUITE" = ok ] && echo "(non-baseline test failures above were re-run)"
echo "SUITE=$SUITE"

git checkout -q -- . ; git clean -fdq -e _out -e _seed
echo "RESULT demo_clean_rc=$R0 build_rc=$RB demo_mut_rc=$R1 suite=$SUITE"
} > $D/verify.log 2>&1
tail -1 $D/verify.log
