#!/usr/bin/env python3
"""Writes seeded/<id>/meta.json from the agent notes, verify.log and eval logs, and prints the DESIGN.md table (10.6)."""
import json, os, re, sys, glob

ROOT = "/verif/seeded"
NEEDS = json.load(open("/verif/tools/seed_needs.json")) if os.path.exists("/verif/tools/seed_needs.json") else {}

def parse_eval(path):
    """returns {prop: {"exit": n, "labels": [...], "known": bool}} taking the LAST run of each prop in the log"""
    out = {}
    if not os.path.exists(path):
        return out
    cur = None
    for line in open(path, errors="replace"):
        m = re.match(r"### ./check (C\d+) (\w+) on seeded change", line)
        if m:
            cur = m.group(1)
            out[cur] = {"exit": None, "labels": [], "inconclusive": []}
            continue
        if cur is None:
            continue
        m = re.search(r"obligation=(\S+) kind=(\S+) label=(.*?) fn=", line)
        if m:
            out[cur]["labels"].append("%s: %s %s" % (m.group(1), m.group(2), m.group(3)))
        if line.startswith("INCONCLUSIVE:"):
            out[cur]["inconclusive"].append(line.strip()[:200])
        m = re.search(r"-> exit (\d)", line)
        if m:
            out[cur]["exit"] = int(m.group(1))
    return out

rows = []
for d in sorted(glob.glob(ROOT + "/C*_*")):
    sid = os.path.basename(d)
    prop = sid.split("_")[0]
    ver = ""
    vl = os.path.join(d, "verify.log")
    if os.path.exists(vl):
        for line in open(vl, errors="replace"):
            if line.startswith("RESULT"):
                ver = line.strip()
    ev = parse_eval(os.path.join(d, "eval_quick.log"))
    evt = parse_eval(os.path.join(d, "eval_thorough.log"))
    files = sorted(os.listdir(d))
    demo = [f for f in files if f.endswith("_test.go")]
    caught_by = sorted(p for p, r in ev.items() if r["exit"] == 1) + sorted(p + "(thorough)" for p, r in evt.items() if r["exit"] == 1 and ev.get(p, {}).get("exit") != 1)
    meta = {
        "id": sid, "breaks_property": prop,
        "patch": "patch.diff", "demonstration": demo, "agent_notes": "agent_notes.md" if "agent_notes.md" in files else None,
        "needs_to_manifest": NEEDS.get(sid, {}).get("needs", "see agent_notes.md"),
        "summary": NEEDS.get(sid, {}).get("summary", ""),
        "confirmed_by_me": {"how": "tools/seed_verify.sh in the sub-agent's scratch worktree: demo passes on the clean tree, patch applies and builds, demo fails with the patch, full suite run with the patch (non-baseline failures re-run once)", "result": ver},
        "checks_run": {p: {"tier": "quick", "exit": r["exit"], "violations": r["labels"], "inconclusive": r["inconclusive"]} for p, r in ev.items()},
        "checks_run_thorough": {p: {"exit": r["exit"], "violations": r["labels"]} for p, r in evt.items()},
        "caught_by": caught_by,
        "how_run": "tools/seed_eval.sh %s quick <props>: patch applied to a scratch worktree of /repo HEAD (VERIF_REPO), checks run, worktree restored" % sid,
    }
    json.dump(meta, open(os.path.join(d, "meta.json"), "w"), indent=1)
    rows.append(meta)

if "--table" in sys.argv:
    print("| seed | breaks | change (needs) | checks run -> exit | caught by |")
    print("|---|---|---|---|---|")
    for m in rows:
        runs = ", ".join("%s->%s" % (p, r["exit"]) for p, r in m["checks_run"].items())
        if m["checks_run_thorough"]:
            runs += "; thorough: " + ", ".join("%s->%s" % (p, r["exit"]) for p, r in m["checks_run_thorough"].items())
        labs = []
        for p, r in list(m["checks_run"].items()) + list(m["checks_run_thorough"].items()):
            if r["exit"] == 1:
                labs += [l.split(": ")[0] for l in r["violations"]]
        caught = ", ".join(sorted(set(labs))) or ("**missed**" if m["checks_run"] else "not run")
        print("| %s | %s | %s (%s) | %s | %s |" % (m["id"], m["breaks_property"], m["summary"], m["needs_to_manifest"], runs, caught))
