#!/bin/bash
# seed_eval.sh <seed-id> <tier> <prop> [<prop>...]
# Applies a seeded change to a scratch worktree of /repo (/tmp/wt_eval, same commit as /repo HEAD), runs the
# checks against it (VERIF_REPO), and restores the worktree. Evidence of these runs goes to seeded/<id>/.
ID=$1; TIER=$2; shift 2
D=/verif/seeded/$ID; W=${EVALWT:-/tmp/wt_eval}
[ -d $W ] || git -C /repo worktree add -q --detach $W HEAD
git -C $W checkout -q -- .; git -C $W clean -fdq; git -C $W checkout -q --detach $(git -C /repo rev-parse HEAD) || exit 4
git -C $W apply $D/patch.diff || exit 3
cd /verif
for P in "$@"; do
  echo "### ./check $P $TIER on seeded change $ID"
  mkdir -p $D/ev
  ( time VERIF_REPO=$W VERIF_EVIDENCE_DIR=$D/ev ./check $P $TIER ) 2>&1 | grep -v conda | grep -E "VIOLATION|KNOWN|INCONCLUSIVE|exit|obligation=|replay:|real" | cut -c1-600
done >> $D/eval_$TIER.log 2>&1
git -C $W checkout -q -- .; git -C $W clean -fdq
echo "$ID: $(grep -cE '^VIOLATION' $D/eval_$TIER.log) violation line(s); $(grep -E -- '-> exit' $D/eval_$TIER.log | sed 's/.*-> //' | paste -sd' ')"
