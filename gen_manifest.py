#!/usr/bin/env python3
"""Regenerates MANIFEST.json from obligations.py (claimed properties) and NOT_APPLICABLE below."""
import json, sys, os
sys.path.insert(0, os.path.dirname(os.path.abspath(__file__)))
import obligations as OB

ALL = ["C%02d" % i for i in range(1, 21)]
BASE = "cd /repo && GOFLAGS=-mod=mod GOPROXY=off GOSUMDB=off GOTOOLCHAIN=local go test -vet=off -count=1 -timeout 25m ./..."

TECH = "bounded symbolic execution of the real Go code (own go/ssa -> SMT-LIB encoder, z3 deciding every branch/assertion); counterexamples replayed natively"

def main():
    checks, na = [], []
    for pid in ALL:
        spec = OB.PROPS.get(pid)
        if not spec or not spec.get("obligations"):
            na.append({"property_id": pid, "reason": OB.NOT_BUILT.get(pid, "check not built yet (framework under construction; DESIGN.md section 9)")})
            continue
        names = ", ".join(o["name"] for o in spec["obligations"])
        checks.append({
            "property_id": pid,
            "quick_cmd": "./check %s quick" % pid,
            "thorough_cmd": "./check %s thorough" % pid,
            "evidence_file": "/verif/evidence/%s.json" % pid,
            "replay_cmd_template": "see the 'replay.cmd' / assignment.json next to {path}",
            "engine": "gosym",
            "level_claimed": {"category": "model_checking",
                              "text": spec.get("level_text", "Bounded symbolic model checking of the real code: obligations %s are executed symbolically from go/ssa; every data-dependent branch and assertion is decided by z3 for all values inside the stated bounds; heap-shape inputs fork. Holds = no assertion, panic, deadlock or unwinding failure is satisfiable within the bounds." % names),
                              "design_ref": "DESIGN.md section 6/" + pid},
            "level_note": spec.get("level_note", "Trusted: the gosym encoder (validated per run by replaying sampled paths natively and comparing label traces), z3 4.8.12, the environment models listed in the evidence (intrinsics_hit) and DESIGN.md section 3; bounds and everything outside them are listed in the evidence (samples[].bounds, outside_claim)."),
            "technique": spec.get("technique", TECH),
        })
    m = {"version": 1,
         "setup_cmd": "cd /verif/engine && GOFLAGS=-mod=mod GOPROXY=off GOSUMDB=off GOTOOLCHAIN=local go build -o /verif/bin/gosym ./cmd/gosym",
         "hooks": {"guard": "verif", "enable": "no hooks in /repo: harnesses are injected as in-package overlay files (go/packages Overlay for the encoder, go test -overlay for native replay)",
                   "baseline_off_cmd": BASE, "source_commits": [], "add_only": True},
         "engines": [{"name": "gosym", "path": "/verif/engine", "serves_properties": [c["property_id"] for c in checks],
                      "kind_free_text": "symbolic executor for Go SSA (golang.org/x/tools/go/ssa v0.29.0) emitting SMT-LIB2 for z3/cvc5; forking on heap shape, delay-bounded threads, environment models"}],
         "checks": checks, "not_applicable": na,
         "notes": "All checks: ./check <id> <quick|thorough>; exit 0 holds / 1 replay-confirmed VIOLATION / 2 inconclusive (broken check, never a pass). Known findings: known_findings.json."}
    json.dump(m, open(os.path.join(os.path.dirname(os.path.abspath(__file__)), "MANIFEST.json"), "w"), indent=1)
    print("claimed:", [c["property_id"] for c in checks], "not_applicable:", [n["property_id"] for n in na])

main()
