package sym

import (
	"fmt"
	"go/token"
	"go/types"
	"sync/atomic"

	"golang.org/x/tools/go/ssa"
)

// forkOn clones st for every feasible cond and applies apply(i, state).
// st is reused for the last feasible alternative.
func (e *Engine) forkOn(st *State, sol *Solver, conds []*Term, apply func(i int, s *State)) []*State {
	var feas []int
	for i, c := range conds {
		if e.Feasible(sol, st, c) {
			feas = append(feas, i)
		}
	}
	if len(feas) == 0 {
		e.endPath(st, "infeasible")
		return []*State{}
	}
	var out []*State
	for k, i := range feas {
		s := st
		if k < len(feas)-1 {
			s = st.Clone()
			s.ID = int(atomic.AddInt32(&e.stateCtr, 1))
		}
		s.Assume(conds[i])
		apply(i, s)
		out = append(out, s)
	}
	return out
}

// concretize returns the concrete value of t, or forks over [lo,hi].
// When it forks, the instruction must be retried (IP not advanced).
func (e *Engine) concretize(st *State, sol *Solver, t *Term, lo, hi int64) (int64, []*State, bool) {
	if t.Const {
		return t.Signed(), nil, true
	}
	if v, ok := st.Conc[t.SMT()]; ok {
		return v, nil, true
	}
	if hi-lo > 64 {
		panic(unsupported(fmt.Sprintf("concretize range too large [%d,%d] for %s", lo, hi, t.SMT())))
	}
	var conds []*Term
	var vals []int64
	for v := lo; v <= hi; v++ {
		conds = append(conds, Eq(t, BVC(uint64(v), t.W)))
		vals = append(vals, v)
	}
	key := t.SMT()
	succ := e.forkOn(st, sol, conds, func(i int, s *State) {
		nc := make(map[string]int64, len(s.Conc)+1)
		for k, v := range s.Conc {
			nc[k] = v
		}
		nc[key] = vals[i]
		s.Conc = nc
	})
	return 0, succ, false
}

// valEq builds the equality of two values of the same static type.
func (e *Engine) valEq(st *State, a, b Value) *Term {
	switch x := a.(type) {
	case *Term:
		y, ok := b.(*Term)
		if !ok {
			return False
		}
		if x.Kind != y.Kind || (x.Kind == SBV && x.W != y.W) {
			return False
		}
		return Eq(x, y)
	case Ptr:
		y, ok := b.(Ptr)
		if !ok {
			return False
		}
		return BoolC(ptrEq(x, y))
	case Iface:
		y, ok := b.(Iface)
		if !ok {
			return False
		}
		if x.T == nil || y.T == nil {
			return BoolC(x.T == nil && y.T == nil)
		}
		if !types.Identical(x.T, y.T) {
			return False
		}
		return e.valEq(st, x.V, y.V)
	case *Struct:
		y, ok := b.(*Struct)
		if !ok {
			return False
		}
		r := True
		for i := range x.F {
			r = And(r, e.valEq(st, x.F[i], y.F[i]))
		}
		return r
	case *Array:
		y := b.(*Array)
		r := True
		for i := range x.E {
			r = And(r, e.valEq(st, x.E[i], y.E[i]))
		}
		return r
	case Slice:
		y, ok := b.(Slice)
		if !ok {
			return False
		}
		return BoolC(x.Obj == 0 && y.Obj == 0)
	case Bytes:
		return False // only comparable to nil; a []byte(s) conversion result is never nil
	case MapRef:
		return BoolC(x.Obj == b.(MapRef).Obj)
	case ChanRef:
		return BoolC(x.Obj == b.(ChanRef).Obj)
	case *Closure:
		y := b.(*Closure)
		return BoolC(x == nil && y == nil)
	case Float:
		y := b.(Float)
		if x.Known && y.Known {
			return BoolC(x.V == y.V)
		}
		if x.NaN || y.NaN {
			return False
		}
		return BoolC(x.Tag == y.Tag && x.Tag != "")
	case Tuple:
		y := b.(Tuple)
		r := True
		for i := range x {
			r = And(r, e.valEq(st, x[i], y[i]))
		}
		return r
	case Opaque:
		y, ok := b.(Opaque)
		return BoolC(ok && x.Kind == y.Kind && x.Data == y.Data)
	}
	panic(unsupported(fmt.Sprintf("valEq on %T", a)))
}

func (e *Engine) adv(fr *Frame) { fr.IP++ }

// evalInstr executes a value-producing instruction. Returns ok=true when st
// simply continues.
func (e *Engine) evalInstr(st *State, th *Thread, fr *Frame, in ssa.Value, sol *Solver) ([]*State, bool) {
	set := func(v Value) ([]*State, bool) {
		e.setLocal(fr, in, v)
		fr.IP++
		return nil, true
	}
	switch x := in.(type) {
	case *ssa.Alloc:
		id := st.Alloc(Zero(x.Type().(*types.Pointer).Elem()))
		return set(Ptr{Obj: id})
	case *ssa.Phi:
		// phis are evaluated in jump(); reaching one here means entry block (impossible)
		panic("phi reached in step")
	case *ssa.BinOp:
		a := e.eval(st, fr, x.X)
		b := e.eval(st, fr, x.Y)
		v, pan := e.binop(st, sol, x.Op, x.X.Type(), a, b)
		if pan != "" {
			// division by zero feasibility
			zero := v.(*Term)
			t, f := e.branch(sol, st, zero)
			var out []*State
			if t != nil {
				tt := t.Threads[th.ID]
				e.raise(t, tt, "div0", "integer divide by zero", nil)
				out = append(out, t)
			}
			if f != nil {
				// retry with divisor known non-zero
				out = append(out, f)
			}
			if len(out) == 1 && out[0] == st && t == nil {
				// non-zero: compute
				v2, _ := e.binopNoCheck(st, x.Op, x.X.Type(), a, b)
				return set(v2)
			}
			return out, false
		}
		return set(v)
	case *ssa.UnOp:
		a := e.eval(st, fr, x.X)
		switch x.Op {
		case token.MUL:
			p := a.(Ptr)
			if p.IsNil() {
				e.raise(st, th, "nil-deref", "nil pointer dereference", nil)
				return nil, true
			}
			return set(st.Load(p))
		case token.NOT:
			return set(Not(a.(*Term)))
		case token.SUB:
			if f, ok := a.(Float); ok {
				if f.Known {
					return set(Float{Known: true, V: -f.V})
				}
				return set(Float{Tag: "-" + f.Tag, NaN: f.NaN, Inf: f.Inf})
			}
			return set(BVNeg(a.(*Term)))
		case token.XOR:
			return set(BVNot(a.(*Term)))
		case token.ARROW:
			return e.chanRecv(st, th, fr, x, a.(ChanRef), sol)
		}
	case *ssa.ChangeInterface:
		return set(e.eval(st, fr, x.X))
	case *ssa.ChangeType:
		return set(e.eval(st, fr, x.X))
	case *ssa.Convert:
		v, succ, ok := e.convert(st, sol, e.eval(st, fr, x.X), x.X.Type(), x.Type())
		if !ok {
			return succ, false
		}
		return set(v)
	case *ssa.MakeInterface:
		return set(Iface{T: x.X.Type(), V: e.eval(st, fr, x.X)})
	case *ssa.MakeClosure:
		binds := make([]Value, len(x.Bindings))
		for i, b := range x.Bindings {
			binds[i] = e.eval(st, fr, b)
		}
		return set(&Closure{Fn: x.Fn.(*ssa.Function), Binds: binds})
	case *ssa.MakeMap:
		mt := x.Type().Underlying().(*types.Map)
		id := st.Alloc(&MapObj{KT: mt.Key(), VT: mt.Elem()})
		return set(MapRef{Obj: id})
	case *ssa.MakeChan:
		sz := e.eval(st, fr, x.Size).(*Term)
		n, succ, ok := e.concretize(st, sol, sz, 0, 16)
		if !ok {
			return succ, false
		}
		id := st.Alloc(&ChanObj{Cap: int(n), ET: x.Type().Underlying().(*types.Chan).Elem()})
		return set(ChanRef{Obj: id})
	case *ssa.MakeSlice:
		ln := e.eval(st, fr, x.Len).(*Term)
		cp := e.eval(st, fr, x.Cap).(*Term)
		l, succ, ok := e.concretize(st, sol, ln, 0, 64)
		if !ok {
			return succ, false
		}
		c, succ, ok := e.concretize(st, sol, cp, 0, 64)
		if !ok {
			return succ, false
		}
		if c < l {
			c = l
		}
		et := x.Type().Underlying().(*types.Slice).Elem()
		es := make([]Value, c)
		z := Zero(et)
		for i := range es {
			es[i] = z
		}
		id := st.Alloc(&Array{es})
		return set(Slice{Obj: id, Len: int(l), Cap: int(c)})
	case *ssa.Extract:
		return set(e.eval(st, fr, x.Tuple).(Tuple)[x.Index])
	case *ssa.Field:
		return set(e.eval(st, fr, x.X).(*Struct).F[x.Field])
	case *ssa.FieldAddr:
		p := e.eval(st, fr, x.X).(Ptr)
		if p.IsNil() {
			e.raise(st, th, "nil-deref", "nil pointer dereference (field "+fieldName(x)+")", nil)
			return nil, true
		}
		return set(p.Sub(x.Field))
	case *ssa.IndexAddr:
		base := e.eval(st, fr, x.X)
		idx := e.eval(st, fr, x.Index).(*Term)
		idx = BVResize(idx, 64, isSignedType(x.Index.Type()))
		var n int
		var mk func(i int) Ptr
		switch b := base.(type) {
		case Slice:
			n = b.Len
			mk = func(i int) Ptr { return Ptr{Obj: b.Obj, Path: []int{b.Off + i}} }
		case Ptr:
			if b.IsNil() {
				e.raise(st, th, "nil-deref", "index of nil array pointer", nil)
				return nil, true
			}
			n = len(st.Load(b).(*Array).E)
			mk = func(i int) Ptr { return b.Sub(i) }
		default:
			panic(fmt.Sprintf("IndexAddr on %T", base))
		}
		i, succ, ok := e.boundsIndex(st, th, sol, idx, n)
		if !ok {
			return succ, false
		}
		if i < 0 {
			return nil, true // panic raised
		}
		return set(mk(int(i)))
	case *ssa.Index:
		base := e.eval(st, fr, x.X)
		idx := BVResize(e.eval(st, fr, x.Index).(*Term), 64, isSignedType(x.Index.Type()))
		switch b := base.(type) {
		case *Array:
			i, succ, ok := e.boundsIndex(st, th, sol, idx, len(b.E))
			if !ok {
				return succ, false
			}
			if i < 0 {
				return nil, true
			}
			return set(b.E[i])
		case *Term: // string
			return e.stringIndex(st, th, fr, in, sol, b, idx)
		}
		panic(fmt.Sprintf("Index on %T", base))
	case *ssa.Lookup:
		base := e.eval(st, fr, x.X)
		if s, ok := base.(*Term); ok {
			idx := BVResize(e.eval(st, fr, x.Index).(*Term), 64, isSignedType(x.Index.Type()))
			return e.stringIndex(st, th, fr, in, sol, s, idx)
		}
		m := base.(MapRef)
		k := e.eval(st, fr, x.Index)
		vt := x.X.Type().Underlying().(*types.Map).Elem()
		return e.mapLookup(st, th, sol, m, k, vt, x.CommaOk, in)
	case *ssa.Slice:
		return e.sliceInstr(st, th, fr, x, sol)
	case *ssa.TypeAssert:
		v := e.eval(st, fr, x.X).(Iface)
		ok := false
		if v.T != nil {
			if types.IsInterface(x.AssertedType) {
				ok = types.Implements(v.T, x.AssertedType.Underlying().(*types.Interface))
			} else {
				ok = types.Identical(v.T, x.AssertedType)
			}
		}
		var res Value
		if types.IsInterface(x.AssertedType) {
			if ok {
				res = v
			} else {
				res = Iface{}
			}
		} else {
			if ok {
				res = v.V
			} else {
				res = Zero(x.AssertedType)
			}
		}
		if x.CommaOk {
			return set(Tuple{res, BoolC(ok)})
		}
		if !ok {
			dyn := "nil"
			if v.T != nil {
				dyn = v.T.String()
			}
			e.raise(st, th, "type-assert", fmt.Sprintf("interface conversion: interface is %s, not %s", dyn, x.AssertedType), nil)
			return nil, true
		}
		return set(res)
	case *ssa.Range:
		base := e.eval(st, fr, x.X)
		switch b := base.(type) {
		case MapRef:
			it := &Iter{}
			if b.Obj != 0 {
				mo := st.Heap[b.Obj].(*MapObj)
				it.Keys = mo.Keys
				it.Vals = mo.Vals
			}
			return set(it)
		case *Term:
			// string range: need concrete length
			ln := StrLen(b, 64)
			n, succ, ok := e.concretize(st, sol, ln, 0, 64)
			if !ok {
				return succ, false
			}
			return set(&Iter{Str: b, StrLen: int(n)})
		}
		panic(fmt.Sprintf("Range over %T", base))
	case *ssa.Next:
		it := e.eval(st, fr, x.Iter).(*Iter)
		tt := x.Type().(*types.Tuple)
		if x.IsString {
			if it.Idx >= it.StrLen {
				return set(Tuple{False, BVC(0, 64), BVC(0, 32)})
			}
			if ByteMode {
				// UTF-8 decoding: fork over the well-formed sequence classes that fit, plus "ill-formed"
				conds, runes, widths := utf8DecodeAt(it.Str, it.Idx, it.StrLen)
				key := fmt.Sprintf("u8:%s@%d", it.Str.SMT(), it.Idx)
				k, decided := st.Conc[key]
				if !decided {
					succ := e.forkOn(st, sol, conds, func(i int, s *State) {
						nc := make(map[string]int64, len(s.Conc)+1)
						for kk, v := range s.Conc {
							nc[kk] = v
						}
						nc[key] = int64(i)
						s.Conc = nc
					})
					return succ, false
				}
				nit := *it
				nit.Idx += widths[k]
				e.setLocal(fr, x.Iter, &nit)
				return set(Tuple{True, BVC(uint64(it.Idx), 64), runes[k]})
			}
			ch := IntToBV(StrToCode(StrAt(it.Str, IntC(int64(it.Idx)))), 32)
			nit := *it
			nit.Idx++
			e.setLocal(fr, x.Iter, &nit)
			return set(Tuple{True, BVC(uint64(it.Idx), 64), ch})
		}
		if it.Idx >= len(it.Keys) {
			return set(Tuple{False, zeroOrInvalid(tt.At(1).Type()), zeroOrInvalid(tt.At(2).Type())})
		}
		nit := *it
		nit.Idx++
		e.setLocal(fr, x.Iter, &nit)
		return set(Tuple{True, it.Keys[it.Idx], it.Vals[it.Idx]})
	case *ssa.Select:
		return e.selectInstr(st, th, fr, x, sol)
	case *ssa.SliceToArrayPointer:
		s := e.eval(st, fr, x.X).(Slice)
		_ = s
		panic(unsupported("SliceToArrayPointer"))
	}
	panic(unsupported(fmt.Sprintf("value instruction %T (%s)", in, in)))
}

func zeroOrInvalid(t types.Type) Value {
	if b, ok := t.(*types.Basic); ok && b.Kind() == types.Invalid {
		return False
	}
	return Zero(t)
}

func fieldName(x *ssa.FieldAddr) string {
	st := x.X.Type().Underlying().(*types.Pointer).Elem().Underlying().(*types.Struct)
	return st.Field(x.Field).Name()
}

func isSignedType(t types.Type) bool {
	_, s, ok := intWidth(t)
	return ok && s
}

// boundsIndex returns a concrete index in [0,n) or raises an index panic.
// returns (-1, nil, true) when a panic was raised in st.
func (e *Engine) boundsIndex(st *State, th *Thread, sol *Solver, idx *Term, n int) (int64, []*State, bool) {
	if idx.Const {
		i := idx.Signed()
		if i < 0 || i >= int64(n) {
			e.raise(st, th, "index", fmt.Sprintf("index out of range [%d] with length %d", i, n), nil)
			return -1, nil, true
		}
		return i, nil, true
	}
	if v, ok := st.Conc[idx.SMT()]; ok && v >= 0 && v < int64(n) {
		return v, nil, true
	}
	oob := Or(BVSlt(idx, BVC(0, 64)), BVSle(BVC(uint64(n), 64), idx))
	t, f := e.branch(sol, st, oob)
	if t != nil && f != nil {
		e.raise(t, t.Threads[th.ID], "index", fmt.Sprintf("index out of range (symbolic) with length %d", n), nil)
		return 0, []*State{t, f}, false
	}
	if t != nil {
		e.raise(st, th, "index", fmt.Sprintf("index out of range (symbolic) with length %d", n), nil)
		return -1, nil, true
	}
	return e.concretize(st, sol, idx, 0, int64(n-1))
}

func (e *Engine) stringIndex(st *State, th *Thread, fr *Frame, in ssa.Value, sol *Solver, s *Term, idx *Term) ([]*State, bool) {
	ln := StrLen(s, 64)
	oob := Or(BVSlt(idx, BVC(0, 64)), BVSle(ln, idx))
	t, f := e.branch(sol, st, oob)
	if t != nil && f != nil {
		e.raise(t, t.Threads[th.ID], "index", "string index out of range", nil)
		return []*State{t, f}, false
	}
	if t != nil {
		e.raise(st, th, "index", "string index out of range", nil)
		return nil, true
	}
	ch := IntToBV(StrToCode(StrAt(s, BVToInt(idx))), 8)
	e.setLocal(fr, in, ch)
	fr.IP++
	return nil, true
}

// ---------------------------------------------------------------- binop

func (e *Engine) binop(st *State, sol *Solver, op token.Token, t types.Type, a, b Value) (Value, string) {
	if op == token.QUO || op == token.REM {
		if bt, ok := b.(*Term); ok && bt.Kind == SBV {
			if bt.Const {
				if bt.U == 0 {
					return True, "div0"
				}
			} else {
				z := Eq(bt, BVC(0, bt.W))
				if st.quick(z) != 0 {
					return z, "div0"
				}
			}
		}
	}
	return e.binopNoCheck(st, op, t, a, b)
}

func (e *Engine) binopNoCheck(st *State, op token.Token, t types.Type, a, b Value) (Value, string) {
	switch op {
	case token.EQL:
		return e.valEq(st, a, b), ""
	case token.NEQ:
		return Not(e.valEq(st, a, b)), ""
	}
	if fa, ok := a.(Float); ok {
		fb := b.(Float)
		if !fa.Known || !fb.Known {
			panic(unsupported("symbolic float arithmetic"))
		}
		switch op {
		case token.ADD:
			return Float{Known: true, V: fa.V + fb.V}, ""
		case token.SUB:
			return Float{Known: true, V: fa.V - fb.V}, ""
		case token.MUL:
			return Float{Known: true, V: fa.V * fb.V}, ""
		case token.QUO:
			return Float{Known: true, V: fa.V / fb.V}, ""
		case token.LSS:
			return BoolC(fa.V < fb.V), ""
		case token.LEQ:
			return BoolC(fa.V <= fb.V), ""
		case token.GTR:
			return BoolC(fa.V > fb.V), ""
		case token.GEQ:
			return BoolC(fa.V >= fb.V), ""
		}
	}
	x, y := a.(*Term), b.(*Term)
	if x.Kind == SString {
		switch op {
		case token.ADD:
			return StrConcat(x, y), ""
		case token.LSS:
			return StrLt(x, y), ""
		case token.LEQ:
			return StrLe(x, y), ""
		case token.GTR:
			return StrLt(y, x), ""
		case token.GEQ:
			return StrLe(y, x), ""
		}
	}
	if x.Kind == SBool {
		switch op {
		case token.AND, token.LAND:
			return And(x, y), ""
		case token.OR, token.LOR:
			return Or(x, y), ""
		}
	}
	_, signed, _ := intWidth(t)
	switch op {
	case token.ADD:
		return BVAdd(x, y), ""
	case token.SUB:
		return BVSub(x, y), ""
	case token.MUL:
		return BVMul(x, y), ""
	case token.QUO:
		if signed {
			return BVSDiv(x, y), ""
		}
		return BVUDiv(x, y), ""
	case token.REM:
		if signed {
			return BVSRem(x, y), ""
		}
		return BVURem(x, y), ""
	case token.AND:
		return BVAnd(x, y), ""
	case token.OR:
		return BVOr(x, y), ""
	case token.XOR:
		return BVXor(x, y), ""
	case token.AND_NOT:
		return BVAnd(x, BVNot(y)), ""
	case token.SHL:
		return BVShl(x, BVResize(y, x.W, false)), ""
	case token.SHR:
		if signed {
			return BVAshr(x, BVResize(y, x.W, false)), ""
		}
		return BVLshr(x, BVResize(y, x.W, false)), ""
	case token.LSS:
		if signed {
			return BVSlt(x, y), ""
		}
		return BVUlt(x, y), ""
	case token.LEQ:
		if signed {
			return BVSle(x, y), ""
		}
		return BVUle(x, y), ""
	case token.GTR:
		if signed {
			return BVSlt(y, x), ""
		}
		return BVUlt(y, x), ""
	case token.GEQ:
		if signed {
			return BVSle(y, x), ""
		}
		return BVUle(y, x), ""
	}
	panic(unsupported("binop " + op.String()))
}

// ---------------------------------------------------------------- convert

func (e *Engine) convert(st *State, sol *Solver, v Value, from, to types.Type) (Value, []*State, bool) {
	fu, tu := from.Underlying(), to.Underlying()
	// int -> int
	if fw, fs, ok := intWidth(from); ok {
		if tw, _, ok2 := intWidth(to); ok2 {
			_ = fw
			return BVResize(v.(*Term), tw, fs), nil, true
		}
		if isStringType(to) {
			// string(rune)
			t := v.(*Term)
			return StrFromCode(BVToInt(BVResize(t, 64, fs))), nil, true
		}
		if isFloat(to) {
			t := v.(*Term)
			if t.Const {
				if fs {
					return Float{Known: true, V: float64(t.Signed())}, nil, true
				}
				return Float{Known: true, V: float64(t.U)}, nil, true
			}
			return Float{Tag: "conv(" + t.SMT() + ")"}, nil, true
		}
	}
	if isFloat(from) {
		f := v.(Float)
		if isFloat(to) {
			return f, nil, true
		}
		if tw, _, ok := intWidth(to); ok {
			if f.Known {
				return BVC(uint64(int64(f.V)), tw), nil, true
			}
			return FreshVar("f2i", SBV, tw), nil, true
		}
	}
	if isStringType(from) {
		if isStringType(to) {
			return v, nil, true
		}
		if sl, ok := tu.(*types.Slice); ok {
			s := v.(*Term)
			if b, ok := sl.Elem().Underlying().(*types.Basic); ok && b.Kind() == types.Uint8 && !s.Const {
				return Bytes{S: s}, nil, true
			}
			if b, ok := sl.Elem().Underlying().(*types.Basic); ok && b.Kind() == types.Uint8 {
				n, succ, ok := e.concretize(st, sol, StrLen(s, 64), 0, 64)
				if !ok {
					return nil, succ, false
				}
				es := make([]Value, n)
				for i := range es {
					es[i] = IntToBV(StrToCode(StrAt(s, IntC(int64(i)))), 8)
				}
				id := st.Alloc(&Array{es})
				return Slice{Obj: id, Len: int(n), Cap: int(n)}, nil, true
			}
			if b, ok := sl.Elem().Underlying().(*types.Basic); ok && b.Kind() == types.Int32 {
				n, succ, ok := e.concretize(st, sol, StrLen(s, 64), 0, 64)
				if !ok {
					return nil, succ, false
				}
				es := make([]Value, n)
				for i := range es {
					es[i] = IntToBV(StrToCode(StrAt(s, IntC(int64(i)))), 32)
				}
				id := st.Alloc(&Array{es})
				return Slice{Obj: id, Len: int(n), Cap: int(n)}, nil, true
			}
		}
	}
	if bv, ok := v.(Bytes); ok && isStringType(to) {
		return bv.S, nil, true
	}
	if sl, ok := fu.(*types.Slice); ok && isStringType(to) {
		s := v.(Slice)
		_ = sl
		parts := []*Term{}
		for i := 0; i < s.Len; i++ {
			el := st.Load(Ptr{Obj: s.Obj, Path: []int{s.Off + i}}).(*Term)
			parts = append(parts, StrFromCode(BVToInt(BVResize(el, 64, false))))
		}
		return StrConcat(parts...), nil, true
	}
	if _, ok := fu.(*types.Pointer); ok {
		if b, ok := tu.(*types.Basic); ok && b.Kind() == types.UnsafePointer {
			return v, nil, true
		}
	}
	if b, ok := fu.(*types.Basic); ok && b.Kind() == types.UnsafePointer {
		return v, nil, true
	}
	panic(unsupported(fmt.Sprintf("convert %s -> %s", from, to)))
}

// ---------------------------------------------------------------- slices

func (e *Engine) sliceInstr(st *State, th *Thread, fr *Frame, x *ssa.Slice, sol *Solver) ([]*State, bool) {
	base := e.eval(st, fr, x.X)
	getI := func(v ssa.Value) *Term {
		if v == nil {
			return nil
		}
		return BVResize(e.eval(st, fr, v).(*Term), 64, isSignedType(v.Type()))
	}
	lo, hi, mx := getI(x.Low), getI(x.High), getI(x.Max)
	set := func(v Value) ([]*State, bool) {
		e.setLocal(fr, x, v)
		fr.IP++
		return nil, true
	}
	if s, ok := base.(*Term); ok {
		ln := StrLen(s, 64)
		if lo == nil {
			lo = BVC(0, 64)
		}
		if hi == nil {
			hi = ln
		}
		bad := Or(BVSlt(lo, BVC(0, 64)), BVSlt(hi, lo), BVSlt(ln, hi))
		t, f := e.branch(sol, st, bad)
		if t != nil && f != nil {
			e.raise(t, t.Threads[th.ID], "slice", "slice bounds out of range (string)", nil)
			return []*State{t, f}, false
		}
		if t != nil {
			e.raise(st, th, "slice", "slice bounds out of range (string)", nil)
			return nil, true
		}
		if lo.Const && lo.U == 0 && hi == ln {
			return set(s)
		}
		return set(StrSubstr(s, BVToInt(lo), BVToInt(BVSub(hi, lo))))
	}
	if bs, ok := base.(Bytes); ok {
		// []byte view of a string: b[:] (the only form used by the kernels)
		if (lo == nil || (lo.Const && lo.U == 0)) && hi == nil {
			return set(bs)
		}
		panic(unsupported("sub-slicing a []byte(string) view"))
	}
	var obj, off, ln, cp int
	switch b := base.(type) {
	case Slice:
		obj, off, ln, cp = b.Obj, b.Off, b.Len, b.Cap
	case Ptr:
		if b.IsNil() {
			e.raise(st, th, "nil-deref", "slice of nil array pointer", nil)
			return nil, true
		}
		if len(b.Path) != 0 {
			panic(unsupported("slice of array embedded in object"))
		}
		obj = b.Obj
		ln = len(st.Load(b).(*Array).E)
		cp = ln
	default:
		panic(fmt.Sprintf("Slice on %T", base))
	}
	conc := func(t *Term, def int) (int, []*State, bool) {
		if t == nil {
			return def, nil, true
		}
		// bounds check feasibility first
		bad := Or(BVSlt(t, BVC(0, 64)), BVSlt(BVC(uint64(cp), 64), t))
		tb, fb := e.branch(sol, st, bad)
		if tb != nil && fb != nil {
			e.raise(tb, tb.Threads[th.ID], "slice", fmt.Sprintf("slice bounds out of range with capacity %d", cp), nil)
			return 0, []*State{tb, fb}, false
		}
		if tb != nil {
			e.raise(st, th, "slice", fmt.Sprintf("slice bounds out of range with capacity %d", cp), nil)
			return -1, nil, true
		}
		v, succ, ok := e.concretize(st, sol, t, 0, int64(cp))
		return int(v), succ, ok
	}
	l, succ, ok := conc(lo, 0)
	if !ok {
		return succ, false
	}
	if l < 0 {
		return nil, true
	}
	h, succ, ok := conc(hi, ln)
	if !ok {
		return succ, false
	}
	if h < 0 {
		return nil, true
	}
	m, succ, ok := conc(mx, cp)
	if !ok {
		return succ, false
	}
	if m < 0 {
		return nil, true
	}
	if l > h || h > m {
		e.raise(st, th, "slice", fmt.Sprintf("slice bounds out of range [%d:%d:%d]", l, h, m), nil)
		return nil, true
	}
	if obj == 0 {
		return set(Slice{})
	}
	return set(Slice{Obj: obj, Off: off + l, Len: h - l, Cap: m - l})
}

func (e *Engine) sliceElems(st *State, s Slice) []Value {
	if s.Obj == 0 || s.Len == 0 {
		return nil
	}
	arr := st.Heap[s.Obj].(*Array)
	return arr.E[s.Off : s.Off+s.Len]
}

func (e *Engine) newSlice(st *State, elems []Value) Slice {
	cp := make([]Value, len(elems))
	copy(cp, elems)
	id := st.Alloc(&Array{cp})
	return Slice{Obj: id, Len: len(elems), Cap: len(elems)}
}

func (e *Engine) appendSlice(st *State, s Slice, add []Value, et types.Type) Slice {
	if len(add) == 0 {
		return s
	}
	if s.Obj != 0 && s.Len+len(add) <= s.Cap {
		arr := st.Heap[s.Obj].(*Array)
		ne := make([]Value, len(arr.E))
		copy(ne, arr.E)
		for i, v := range add {
			ne[s.Off+s.Len+i] = v
		}
		st.Heap[s.Obj] = &Array{ne}
		return Slice{Obj: s.Obj, Off: s.Off, Len: s.Len + len(add), Cap: s.Cap}
	}
	need := s.Len + len(add)
	ncap := s.Cap * 2
	if ncap < need {
		ncap = need
	}
	if ncap < 4 {
		ncap = need
	}
	ne := make([]Value, ncap)
	copy(ne, e.sliceElems(st, s))
	for i, v := range add {
		ne[s.Len+i] = v
	}
	z := Zero(et)
	for i := need; i < ncap; i++ {
		ne[i] = z
	}
	id := st.Alloc(&Array{ne})
	return Slice{Obj: id, Len: need, Cap: ncap}
}

// ---------------------------------------------------------------- maps

func (e *Engine) mapLookup(st *State, th *Thread, sol *Solver, m MapRef, k Value, vt types.Type, commaOk bool, in ssa.Value) ([]*State, bool) {
	finish := func(s *State, v Value, ok *Term) {
		fr := s.Threads[th.ID].top()
		if commaOk {
			e.setLocal(fr, in, Tuple{v, ok})
		} else {
			e.setLocal(fr, in, v)
		}
		fr.IP++
	}
	zero := Zero(vt)
	if m.Obj == 0 {
		finish(st, zero, False)
		return nil, true
	}
	mo := st.Heap[m.Obj].(*MapObj)
	var conds []*Term
	var vals []Value
	anySym := false
	for i, mk := range mo.Keys {
		c := e.valEq(st, mk, k)
		if c.Const {
			if c.B {
				if !anySym {
					finish(st, mo.Vals[i], True)
					return nil, true
				}
				conds = append(conds, c)
				vals = append(vals, mo.Vals[i])
				break
			}
			continue
		}
		switch st.quick(c) {
		case 1:
			if !anySym {
				finish(st, mo.Vals[i], True)
				return nil, true
			}
		case 0:
			continue
		}
		anySym = true
		conds = append(conds, c)
		vals = append(vals, mo.Vals[i])
	}
	if len(conds) == 0 {
		finish(st, zero, False)
		return nil, true
	}
	// mergeable?
	mergeable := true
	for _, v := range append(vals, zero) {
		if _, ok := v.(*Term); !ok {
			mergeable = false
		}
	}
	if mergeable {
		res := zero.(*Term)
		found := False
		for i := len(conds) - 1; i >= 0; i-- {
			res = Ite(conds[i], vals[i].(*Term), res)
			found = Or(conds[i], found)
		}
		finish(st, res, found)
		return nil, true
	}
	// fork: first matching key, or none
	var alts []*Term
	prev := True
	for _, c := range conds {
		alts = append(alts, And(prev, c))
		prev = And(prev, Not(c))
	}
	alts = append(alts, prev)
	succ := e.forkOn(st, sol, alts, func(i int, s *State) {
		if i < len(vals) {
			finish(s, vals[i], True)
		} else {
			finish(s, zero, False)
		}
	})
	return succ, false
}

// mapUpdate stores k->v. done(s) is invoked on each resulting state.
func (e *Engine) mapUpdate(st *State, sol *Solver, m MapRef, k, v Value, done func(s *State)) []*State {
	mo := st.Heap[m.Obj].(*MapObj)
	var conds []*Term
	var idxs []int
	for i, mk := range mo.Keys {
		c := e.valEq(st, mk, k)
		if c.Const && !c.B {
			continue
		}
		q := st.quick(c)
		if q == 0 {
			continue
		}
		if (c.Const && c.B) || q == 1 {
			if len(conds) == 0 {
				e.mapSet(st, m, i, k, v)
				done(st)
				return nil
			}
		}
		conds = append(conds, c)
		idxs = append(idxs, i)
	}
	if len(conds) == 0 {
		e.mapSet(st, m, -1, k, v)
		done(st)
		return nil
	}
	var alts []*Term
	prev := True
	for _, c := range conds {
		alts = append(alts, And(prev, c))
		prev = And(prev, Not(c))
	}
	alts = append(alts, prev)
	return e.forkOn(st, sol, alts, func(i int, s *State) {
		if i < len(idxs) {
			e.mapSet(s, m, idxs[i], k, v)
		} else {
			e.mapSet(s, m, -1, k, v)
		}
		done(s)
	})
}

func (e *Engine) mapSet(st *State, m MapRef, idx int, k, v Value) {
	mo := st.Heap[m.Obj].(*MapObj)
	nm := &MapObj{KT: mo.KT, VT: mo.VT}
	nm.Keys = append([]Value(nil), mo.Keys...)
	nm.Vals = append([]Value(nil), mo.Vals...)
	if idx >= 0 {
		nm.Vals[idx] = v
	} else {
		nm.Keys = append(nm.Keys, k)
		nm.Vals = append(nm.Vals, v)
	}
	st.Heap[m.Obj] = nm
}

func (e *Engine) mapDelete(st *State, sol *Solver, m MapRef, k Value, done func(s *State)) []*State {
	if m.Obj == 0 {
		done(st)
		return nil
	}
	mo := st.Heap[m.Obj].(*MapObj)
	var conds []*Term
	var idxs []int
	for i, mk := range mo.Keys {
		c := e.valEq(st, mk, k)
		if c.Const && !c.B {
			continue
		}
		conds = append(conds, c)
		idxs = append(idxs, i)
	}
	del := func(s *State, i int) {
		mo := s.Heap[m.Obj].(*MapObj)
		nm := &MapObj{KT: mo.KT, VT: mo.VT}
		nm.Keys = append(append([]Value(nil), mo.Keys[:i]...), mo.Keys[i+1:]...)
		nm.Vals = append(append([]Value(nil), mo.Vals[:i]...), mo.Vals[i+1:]...)
		s.Heap[m.Obj] = nm
	}
	if len(conds) == 0 {
		done(st)
		return nil
	}
	if len(conds) == 1 && conds[0].Const {
		del(st, idxs[0])
		done(st)
		return nil
	}
	var alts []*Term
	prev := True
	for _, c := range conds {
		alts = append(alts, And(prev, c))
		prev = And(prev, Not(c))
	}
	alts = append(alts, prev)
	return e.forkOn(st, sol, alts, func(i int, s *State) {
		if i < len(idxs) {
			del(s, idxs[i])
		}
		done(s)
	})
}

// ---------------------------------------------------------------- builtins

func (e *Engine) callBuiltin(st *State, th *Thread, name string, args []Value, retTo ssa.Value, instr ssa.Instruction) []*State {
	fr := th.top()
	ret := func(v Value) []*State {
		if retTo != nil {
			e.setLocal(fr, retTo, v)
		}
		return nil
	}
	sol := e.solverFor(th)
	switch name {
	case "len":
		switch x := args[0].(type) {
		case *Term:
			return ret(StrLen(x, 64))
		case Slice:
			return ret(BVC(uint64(x.Len), 64))
		case Bytes:
			return ret(StrLen(x.S, 64))
		case MapRef:
			if x.Obj == 0 {
				return ret(BVC(0, 64))
			}
			return ret(BVC(uint64(len(st.Heap[x.Obj].(*MapObj).Keys)), 64))
		case ChanRef:
			if x.Obj == 0 {
				return ret(BVC(0, 64))
			}
			return ret(BVC(uint64(len(st.Heap[x.Obj].(*ChanObj).Buf)), 64))
		case *Array:
			return ret(BVC(uint64(len(x.E)), 64))
		case Ptr:
			return ret(BVC(uint64(len(st.Load(x).(*Array).E)), 64))
		}
	case "cap":
		switch x := args[0].(type) {
		case Slice:
			return ret(BVC(uint64(x.Cap), 64))
		case ChanRef:
			if x.Obj == 0 {
				return ret(BVC(0, 64))
			}
			return ret(BVC(uint64(st.Heap[x.Obj].(*ChanObj).Cap), 64))
		}
	case "append":
		// []byte text views: append(nil-or-empty, view...) is the view; view ++ view concatenates
		if b1, ok := args[1].(Bytes); ok {
			switch a0 := args[0].(type) {
			case Slice:
				if a0.Len == 0 {
					return ret(b1)
				}
			case Bytes:
				return ret(Bytes{S: StrConcat(a0.S, b1.S)})
			}
			panic(unsupported("append of a []byte text view to a non-empty byte slice"))
		}
		if b0, ok := args[0].(Bytes); ok {
			if s1, ok := args[1].(Slice); ok && s1.Len == 0 {
				return ret(b0)
			}
			if t1, ok := args[1].(*Term); ok {
				return ret(Bytes{S: StrConcat(b0.S, t1)})
			}
			panic(unsupported("append to a []byte text view"))
		}
		s := args[0].(Slice)
		var add []Value
		var et types.Type
		call := instr.(ssa.CallInstruction).Common()
		et = call.Args[0].Type().Underlying().(*types.Slice).Elem()
		switch a := args[1].(type) {
		case Slice:
			add = e.sliceElems(st, a)
		case *Term: // append([]byte, string...)
			n, succ, ok := e.concretize(st, sol, StrLen(a, 64), 0, 64)
			if !ok {
				th.top().IP--
				return succ
			}
			for i := 0; i < int(n); i++ {
				add = append(add, IntToBV(StrToCode(StrAt(a, IntC(int64(i)))), 8))
			}
		}
		return ret(e.appendSlice(st, s, add, et))
	case "copy":
		dst := args[0].(Slice)
		var src []Value
		switch a := args[1].(type) {
		case Slice:
			src = e.sliceElems(st, a)
		case *Term:
			n, succ, ok := e.concretize(st, sol, StrLen(a, 64), 0, 64)
			if !ok {
				th.top().IP--
				return succ
			}
			for i := 0; i < int(n); i++ {
				src = append(src, IntToBV(StrToCode(StrAt(a, IntC(int64(i)))), 8))
			}
		}
		n := len(src)
		if dst.Len < n {
			n = dst.Len
		}
		if n > 0 {
			arr := st.Heap[dst.Obj].(*Array)
			ne := make([]Value, len(arr.E))
			copy(ne, arr.E)
			cp := append([]Value(nil), src[:n]...)
			copy(ne[dst.Off:], cp)
			st.Heap[dst.Obj] = &Array{ne}
		}
		return ret(BVC(uint64(n), 64))
	case "delete":
		succ := e.mapDelete(st, sol, args[0].(MapRef), args[1], func(s *State) {})
		if succ != nil {
			return succ
		}
		return ret(Tuple{})
	case "panic":
		e.raise(st, th, "explicit", "panic: "+e.describePanicVal(st, args[0]), args[0])
		return nil
	case "recover":
		// meaningful only in a deferred frame called during unwinding
		if fr.IsDeferred && th.Panic != nil {
			v := th.Panic.Val
			if v == nil {
				v = e.newErrorString(st, StrC("runtime error: "+th.Panic.Msg))
			}
			th.Panic = nil
			if iv, ok := v.(Iface); ok {
				return ret(iv)
			}
			return ret(Iface{})
		}
		return ret(Iface{})
	case "close":
		c := args[0].(ChanRef)
		if c.Obj == 0 {
			e.raise(st, th, "close-nil", "close of nil channel", nil)
			return nil
		}
		co := *st.Heap[c.Obj].(*ChanObj)
		if co.Closed {
			e.raise(st, th, "close-closed", "close of closed channel", nil)
			return nil
		}
		co.Closed = true
		st.Heap[c.Obj] = &co
		return ret(Tuple{})
	case "min", "max":
		x, y := args[0].(*Term), args[1].(*Term)
		call := instr.(ssa.CallInstruction).Common()
		_, signed, _ := intWidth(call.Args[0].Type())
		var lt *Term
		if x.Kind == SString {
			lt = StrLt(x, y)
		} else if signed {
			lt = BVSlt(x, y)
		} else {
			lt = BVUlt(x, y)
		}
		if name == "min" {
			return ret(Ite(lt, x, y))
		}
		return ret(Ite(lt, y, x))
	case "print", "println":
		return ret(Tuple{})
	case "ssa:wrapnilchk":
		p := args[0].(Ptr)
		if p.IsNil() {
			e.raise(st, th, "nil-deref", "value method called using nil pointer", nil)
			return nil
		}
		return ret(p)
	}
	panic(unsupported("builtin " + name + fmt.Sprintf(" on %T", args[0])))
}

func (e *Engine) solverFor(th *Thread) *Solver {
	if v, ok := curSol.Load(th); ok {
		return v.(*Solver)
	}
	return nil
}
