package sym

import (
	"bufio"
	"fmt"
	"io"
	"os"
	"os/exec"
	"strings"
	"sync"
	"sync/atomic"
	"time"
)

type Result int

const (
	Sat Result = iota
	Unsat
	Unknown
)

func (r Result) String() string { return [...]string{"sat", "unsat", "unknown"}[r] }

// Solver wraps one long-lived SMT process speaking SMT-LIB2 on stdin/stdout.
type Solver struct {
	Name     string
	argv     []string
	cmd      *exec.Cmd
	in       io.WriteCloser
	out      *bufio.Reader
	declared map[string]bool
	TimeoutM int // per query, ms
	Queries  int
	Time     time.Duration
	Errors   int
	Hangs    int
	UFUnsat  int // cvc5 "unsat" answers discarded because the query contains an uninterpreted function
	log      io.Writer
	dead     bool
}

var SolverLog io.Writer

func solverArgv(name string, timeoutMs int) []string {
	switch name {
	case "z3":
		return []string{"z3", "-in", fmt.Sprintf("-t:%d", timeoutMs)}
	case "z3new":
		return []string{"z3-new", "-in", fmt.Sprintf("-t:%d", timeoutMs)}
	case "cvc5":
		return []string{"cvc5", "--incremental", "--strings-exp", "--produce-models", "--strings-model-max-len=1000000", "--no-strings-regexp-inclusion", "--lang=smt2", fmt.Sprintf("--tlimit-per=%d", timeoutMs)}
	}
	panic("unknown solver " + name)
}

func NewSolver(name string, timeoutMs int) (*Solver, error) {
	s := &Solver{Name: name, argv: solverArgv(name, timeoutMs), TimeoutM: timeoutMs, log: SolverLog}
	if err := s.start(); err != nil {
		return nil, err
	}
	return s, nil
}

func (s *Solver) start() error {
	s.cmd = exec.Command(s.argv[0], s.argv[1:]...)
	in, err := s.cmd.StdinPipe()
	if err != nil {
		return err
	}
	out, err := s.cmd.StdoutPipe()
	if err != nil {
		return err
	}
	s.cmd.Stderr = nil
	if err := s.cmd.Start(); err != nil {
		return err
	}
	s.in = in
	s.out = bufio.NewReaderSize(out, 1<<16)
	s.declared = map[string]bool{}
	s.dead = false
	if s.Name == "cvc5" {
		s.send("(set-logic ALL)\n")
	}
	s.send("(set-option :print-success false)\n")
	return nil
}

func (s *Solver) Close() {
	if s.cmd != nil && s.cmd.Process != nil {
		s.in.Close()
		s.cmd.Process.Kill()
		s.cmd.Wait()
	}
}

func (s *Solver) restart() {
	s.Close()
	_ = s.start()
}

func (s *Solver) send(txt string) {
	if s.log != nil {
		io.WriteString(s.log, txt)
	}
	if _, err := io.WriteString(s.in, txt); err != nil {
		s.dead = true
	}
}

// SelfTest issues canned queries with known answers (regular-expression membership shapes that
// cvc5 1.0.3 gets wrong without --no-strings-regexp-inclusion, plus one unsat control) and
// returns an error on any wrong answer. Run once per back end at start-up: a back end that
// fails is not used.
func (p *SolverPool) SelfTest() error {
	s := p.Get()
	defer p.Put(s)
	cases := []struct {
		smt  string
		want string
	}{
		{`(declare-fun st_p () String)(push 1)(assert (not (str.in_re st_p (re.* (re.range "b" "c")))))(assert (str.in_re st_p (re.* (re.range "a" "d"))))(check-sat)(pop 1)`, "sat"},
		{`(declare-fun st_q () String)(declare-fun st_b () Bool)(push 1)(assert (or (not (str.in_re st_q (re.* (re.range "a" "z")))) st_b))(assert (not st_b))(assert (str.in_re st_q (re.* (re.range "\u{0}" "\u{7f}"))))(check-sat)(pop 1)`, "sat"},
		{`(declare-fun st_r () String)(push 1)(assert (str.in_re st_r (re.+ (re.range "b" "c"))))(assert (= (str.len st_r) 0))(check-sat)(pop 1)`, "unsat"},
	}
	for _, c := range cases {
		s.send(c.smt + "\n")
		got, err := s.readAnswer()
		if err != nil {
			return fmt.Errorf("solver %s self-test: %v", s.Name, err)
		}
		if got != c.want {
			return fmt.Errorf("solver %s self-test: answered %s, expected %s on %s", s.Name, got, c.want, c.smt)
		}
	}
	return nil
}

// blobVars: string variables whose model value is never read (only their length)
var blobVars sync.Map

func MarkBlob(name string) { blobVars.Store(name, true) }

// cvc5 1.0.3 runs with --no-strings-regexp-inclusion: its regular-expression inclusion inference
// answers unsat on satisfiable queries such as
//   (not (str.in_re p (re.* (re.range "b" "c")))) (str.in_re p (re.* (re.range "a" "d")))
// (p = "a"; z3 4.8.12 and 5.1 say sat). Found when a seeded change (C13_D) produced a path whose
// model query cvc5 declared unsat; every cvc5-first obligation was re-run after the change.

func (s *Solver) readLine() (string, error) {
	type res struct {
		l   string
		err error
	}
	ch := make(chan res, 1)
	go func() {
		l, err := s.out.ReadString('\n')
		ch <- res{l, err}
	}()
	select {
	case r := <-ch:
		return strings.TrimSpace(r.l), r.err
	case <-time.After(time.Duration(s.TimeoutM)*time.Millisecond*3 + 10*time.Second):
		return "", fmt.Errorf("solver hang")
	}
}

func (s *Solver) declare(b *strings.Builder, ts []*Term) {
	for _, t := range ts {
		for _, v := range t.Vars() {
			if s.declared[v] {
				continue
			}
			s.declared[v] = true
			if strings.HasPrefix(v, "\x00") {
				varMu.Lock()
				d := funDecls[v[1:]]
				varMu.Unlock()
				b.WriteString(d)
				b.WriteByte('\n')
				continue
			}
			d, ok := lookupDecl(v)
			if !ok {
				panic("undeclared var " + v)
			}
			fmt.Fprintf(b, "(declare-const %s %s)\n", quoteSym(d.Name), sortStr(d.Kind, d.W))
		}
	}
}

// hasUF reports whether a query mentions a declared (uninterpreted) function.
func hasUF(ts []*Term) bool {
	for _, t := range ts {
		for _, v := range t.Vars() {
			if strings.HasPrefix(v, "\x00") {
				return true
			}
		}
	}
	return false
}

var GlobalQueries, GlobalSolverNanos int64

// Check decides satisfiability of the conjunction of asserts. If want is
// non-nil and the result is Sat, values of those terms are returned as
// SMT text.
func (s *Solver) Check(asserts []*Term, want []*Term) (Result, []string) {
	return s.CheckA(asserts, want, false)
}

// CheckA is Check with an optional restriction of every string variable in the
// query to the ASCII alphabet (Go bytes == SMT code points). Feasibility
// queries run without it (a superset domain, sound for pruning and for unsat
// assertion answers); counterexamples are always produced with it.
func (s *Solver) CheckA(asserts []*Term, want []*Term, ascii bool) (Result, []string) {
	t0 := time.Now()
	defer func() {
		d := time.Since(t0)
		s.Time += d
		s.Queries++
		atomic.AddInt64(&GlobalQueries, 1)
		atomic.AddInt64(&GlobalSolverNanos, int64(d))
	}()
	if s.dead {
		s.restart()
	}
	var b strings.Builder
	s.declare(&b, asserts)
	s.declare(&b, want)
	b.WriteString("(push 1)\n")
	for _, a := range asserts {
		b.WriteString("(assert ")
		b.WriteString(a.SMT())
		b.WriteString(")\n")
	}
	if ascii {
		seen := map[string]bool{}
		for _, grp := range [][]*Term{asserts, want} {
			for _, a := range grp {
				for _, v := range a.Vars() {
					if seen[v] || strings.HasPrefix(v, "\x00") {
						continue
					}
					seen[v] = true
					if _, blob := blobVars.Load(v); blob {
						continue // content is never read from the model (vfBlob); a regex over 64 KiB stalls the solvers
					}
					if d, ok := lookupDecl(v); ok && d.Kind == SString {
						top := "7f"
						if ByteMode {
							top = "ff"
						}
						fmt.Fprintf(&b, "(assert (str.in_re %s (re.* (re.range \"\\u{0}\" \"\\u{%s}\"))))\n", quoteSym(d.Name), top)
					}
				}
			}
		}
	}
	b.WriteString("(check-sat)\n")
	s.send(b.String())
	line, err := s.readAnswer()
	var res Result
	switch {
	case err != nil && err.Error() == "solver hang":
		// the solver ignored its own time limit: same meaning as "unknown" (callers keep the
		// branch / retry on the fallback and slow pools), not an encoding error
		s.Hangs++
		s.restart()
		return Unknown, nil
	case err != nil:
		s.Errors++
		if os.Getenv("GOSYM_DEBUG") != "" {
			fmt.Fprintf(os.Stderr, "solver %s: check-sat error: %v\n", s.Name, err)
		}
		s.restart()
		return Unknown, nil
	case line == "sat":
		res = Sat
	case line == "unsat":
		res = Unsat
	default:
		res = Unknown
	}
	var vals []string
	if res == Sat && len(want) > 0 {
		for _, w := range want {
			s.send("(get-value (" + w.SMT() + "))\n")
			v, err := s.readSexp()
			if err != nil {
				s.Errors++
				if os.Getenv("GOSYM_DEBUG") != "" {
					fmt.Fprintf(os.Stderr, "solver %s: get-value error: %v\n", s.Name, err)
				}
				s.restart()
				return Sat, nil
			}
			vals = append(vals, extractValue(v))
		}
	}
	s.send("(pop 1)\n")
	return res, vals
}

// readAnswer reads lines until sat/unsat/unknown; any (error line => error.
func (s *Solver) readAnswer() (string, error) {
	for {
		l, err := s.readLine()
		if err != nil {
			return "", err
		}
		if l == "" {
			continue
		}
		if strings.HasPrefix(l, "(error") {
			return "", fmt.Errorf("solver error: %s", l)
		}
		if l == "sat" || l == "unsat" || l == "unknown" || l == "timeout" {
			return l, nil
		}
		if strings.Contains(l, "set-logic") || strings.Contains(l, "cvc5 will") || strings.Contains(l, "Consider") || strings.Contains(l, "The model was computed") {
			continue
		}
		// unexpected output
		return "", fmt.Errorf("unexpected solver output: %s", l)
	}
}

// readSexp reads one balanced s-expression (may span lines).
func (s *Solver) readSexp() (string, error) {
	var b strings.Builder
	depth := 0
	started := false
	inStr := false
	for {
		l, err := s.readLine()
		if err != nil {
			return "", err
		}
		if !started && strings.HasPrefix(l, "(error") {
			return "", fmt.Errorf("%s", l)
		}
		if !started && (strings.Contains(l, "The model was computed")) {
			continue
		}
		for i := 0; i < len(l); i++ {
			c := l[i]
			if inStr {
				if c == '"' {
					inStr = false
				}
				continue
			}
			switch c {
			case '"':
				inStr = true
			case '(':
				depth++
				started = true
			case ')':
				depth--
			}
		}
		b.WriteString(l)
		b.WriteByte(' ')
		if started && depth <= 0 && !inStr {
			return b.String(), nil
		}
	}
}

// extractValue: "((term value))" -> value text
func extractValue(s string) string {
	s = strings.TrimSpace(s)
	// strip outer "((" ... "))"
	if !strings.HasPrefix(s, "((") {
		return s
	}
	s = s[2:]
	s = strings.TrimSpace(s)
	s = strings.TrimSuffix(s, "))")
	// skip the first s-expression (the term)
	i := 0
	depth := 0
	inStr := false
	bar := false
	for ; i < len(s); i++ {
		c := s[i]
		if inStr {
			if c == '"' {
				inStr = false
			}
			continue
		}
		if bar {
			if c == '|' {
				bar = false
			}
			continue
		}
		switch c {
		case '"':
			inStr = true
		case '|':
			bar = true
		case '(':
			depth++
		case ')':
			depth--
		case ' ':
			if depth == 0 {
				return strings.TrimSpace(s[i+1:])
			}
		}
	}
	return s
}

// ParseBV parses "#x..." / "#b..." / "(_ bvN w)" into uint64.
func ParseBV(v string) (uint64, bool) {
	v = strings.TrimSpace(v)
	var r uint64
	switch {
	case strings.HasPrefix(v, "#x"):
		_, err := fmt.Sscanf(v[2:], "%x", &r)
		return r, err == nil
	case strings.HasPrefix(v, "#b"):
		for _, c := range v[2:] {
			r = r<<1 | uint64(c-'0')
		}
		return r, true
	case strings.HasPrefix(v, "(_ bv"):
		_, err := fmt.Sscanf(v[5:], "%d", &r)
		return r, err == nil
	}
	return 0, false
}

// ParseStr parses an SMT-LIB string literal (with \u{..} escapes) into Go bytes.
func ParseStr(v string) (string, bool) {
	v = strings.TrimSpace(v)
	if len(v) < 2 || v[0] != '"' {
		return "", false
	}
	v = v[1 : len(v)-1]
	var b strings.Builder
	for i := 0; i < len(v); i++ {
		c := v[i]
		if c == '"' && i+1 < len(v) && v[i+1] == '"' {
			b.WriteByte('"')
			i++
			continue
		}
		if c == '\\' && i+2 < len(v) && v[i+1] == 'u' && v[i+2] == '{' {
			j := strings.IndexByte(v[i:], '}')
			if j > 0 {
				var code uint32
				fmt.Sscanf(v[i+3:i+j], "%x", &code)
				b.WriteByte(byte(code))
				i += j
				continue
			}
		}
		if c == '\\' && i+1 < len(v) && v[i+1] == 'x' && i+3 < len(v) {
			var code uint32
			if _, err := fmt.Sscanf(v[i+2:i+4], "%x", &code); err == nil {
				b.WriteByte(byte(code))
				i += 3
				continue
			}
		}
		b.WriteByte(c)
	}
	return b.String(), true
}

// ---------------------------------------------------------------- pool

type SolverPool struct {
	mu      sync.Mutex
	name    string
	timeout int
	free    []*Solver
	all     []*Solver
}

func NewPool(name string, timeoutMs int) *SolverPool {
	return &SolverPool{name: name, timeout: timeoutMs}
}

func (p *SolverPool) Get() *Solver {
	p.mu.Lock()
	if n := len(p.free); n > 0 {
		s := p.free[n-1]
		p.free = p.free[:n-1]
		p.mu.Unlock()
		return s
	}
	p.mu.Unlock()
	s, err := NewSolver(p.name, p.timeout)
	if err != nil {
		panic(err)
	}
	p.mu.Lock()
	p.all = append(p.all, s)
	p.mu.Unlock()
	return s
}

func (p *SolverPool) Put(s *Solver) {
	p.mu.Lock()
	p.free = append(p.free, s)
	p.mu.Unlock()
}

func (p *SolverPool) KillAll() {
	p.mu.Lock()
	defer p.mu.Unlock()
	for _, s := range p.all {
		if s.cmd != nil && s.cmd.Process != nil {
			s.cmd.Process.Kill()
		}
	}
}

func (p *SolverPool) Close() {
	p.mu.Lock()
	defer p.mu.Unlock()
	for _, s := range p.all {
		s.Close()
	}
}

func (p *SolverPool) Stats() (queries int, t time.Duration, errs int) {
	p.mu.Lock()
	defer p.mu.Unlock()
	for _, s := range p.all {
		queries += s.Queries
		t += s.Time
		errs += s.Errors
	}
	return
}
