package sym

import "fmt"

// ByteMode (-bytes): strings are byte strings — every SMT character is one byte 0..255
// (instead of 0..127) — and the operations that decode or encode UTF-8 follow Go's rules:
// `for _, r := range s` (ssa.Next), (*strings.Builder).WriteRune, utf8.ValidString.
// Everything else in the string models is byte-exact already. Case mapping and the other
// unicode-aware functions are NOT extended: obligations that enable -bytes must not reach them.
var ByteMode bool

type u8class struct {
	lo, hi int64
	next   [][2]int64
	sub    int64 // value subtracted from the lead byte
}

var cont = [2]int64{0x80, 0xBF}

// the well-formed UTF-8 byte sequences (Unicode 15, table 3-7) = what Go's decoder accepts
var u8classes = []u8class{
	{0x00, 0x7F, nil, 0},
	{0xC2, 0xDF, [][2]int64{cont}, 0xC0},
	{0xE0, 0xE0, [][2]int64{{0xA0, 0xBF}, cont}, 0xE0},
	{0xE1, 0xEC, [][2]int64{cont, cont}, 0xE0},
	{0xED, 0xED, [][2]int64{{0x80, 0x9F}, cont}, 0xE0},
	{0xEE, 0xEF, [][2]int64{cont, cont}, 0xE0},
	{0xF0, 0xF0, [][2]int64{{0x90, 0xBF}, cont, cont}, 0xF0},
	{0xF1, 0xF3, [][2]int64{cont, cont, cont}, 0xF0},
	{0xF4, 0xF4, [][2]int64{{0x80, 0x8F}, cont, cont}, 0xF0},
}

func byteCode(s *Term, i int) *Term { return StrToCode(StrAt(s, IntC(int64(i)))) }

func inRange(x *Term, lo, hi int64) *Term {
	return And(intCmp(">=", x, IntC(lo)), intCmp("<=", x, IntC(hi)))
}

// utf8DecodeAt returns, for the rune starting at byte idx of s (length n, both concrete),
// the alternative decodings: condition, rune value (BV32) and width. The last alternative
// is the ill-formed case (RuneError, width 1).
func utf8DecodeAt(s *Term, idx, n int) (conds []*Term, runes []*Term, widths []int) {
	var any []*Term
	for _, k := range u8classes {
		w := 1 + len(k.next)
		if idx+w > n {
			continue
		}
		c := inRange(byteCode(s, idx), k.lo, k.hi)
		val := intArith("-", byteCode(s, idx), IntC(k.sub))
		for j, r := range k.next {
			b := byteCode(s, idx+1+j)
			c = And(c, inRange(b, r[0], r[1]))
			val = intArith("+", intArith("*", val, IntC(64)), intArith("-", b, IntC(0x80)))
		}
		conds = append(conds, c)
		runes = append(runes, IntToBV(val, 32))
		widths = append(widths, w)
		any = append(any, c)
	}
	conds = append(conds, Not(Or(any...)))
	runes = append(runes, BVC(0xFFFD, 32))
	widths = append(widths, 1)
	return
}

// utf8Encode is the string WriteRune appends for rune r (BV32, signed).
func utf8Encode(r *Term) *Term {
	ri := BVToInt(BVResize(r, 64, true)) // signed value as Int
	b := func(div, mod, add int64) *Term {
		v := ri
		if div > 1 {
			v = intArith("div", v, IntC(div))
		}
		if mod > 0 {
			v = intArith("mod", v, IntC(mod))
		}
		return StrFromCode(intArith("+", v, IntC(add)))
	}
	one := StrFromCode(ri)
	two := StrConcat(b(64, 0, 0xC0), b(1, 64, 0x80))
	three := StrConcat(b(4096, 0, 0xE0), b(64, 64, 0x80), b(1, 64, 0x80))
	four := StrConcat(b(262144, 0, 0xF0), b(4096, 64, 0x80), b(64, 64, 0x80), b(1, 64, 0x80))
	bad := Or(intCmp("<", ri, IntC(0)), intCmp(">", ri, IntC(0x10FFFF)), inRange(ri, 0xD800, 0xDFFF))
	return Ite(bad, StrC("\xEF\xBF\xBD"),
		Ite(intCmp("<", ri, IntC(0x80)), one,
			Ite(intCmp("<", ri, IntC(0x800)), two,
				Ite(intCmp("<", ri, IntC(0x10000)), three, four))))
}

// utf8ValidRe: RegLan of the well-formed UTF-8 byte strings.
func utf8ValidRe() *Term {
	rng := func(lo, hi int64) string {
		if lo == hi {
			return fmt.Sprintf("(str.to_re \"\\u{%x}\")", lo)
		}
		return fmt.Sprintf("(re.range \"\\u{%x}\" \"\\u{%x}\")", lo, hi)
	}
	alts := ""
	for _, k := range u8classes {
		if len(k.next) == 0 {
			alts += " " + rng(k.lo, k.hi)
			continue
		}
		seq := "(re.++ " + rng(k.lo, k.hi)
		for _, r := range k.next {
			seq += " " + rng(r[0], r[1])
		}
		alts += " " + seq + ")"
	}
	return Raw(SRegLan, 0, "(re.* (re.union"+alts+"))")
}
