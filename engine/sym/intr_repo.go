package sym

import (
	"fmt"
	"go/types"
	"strings"
)

// ExecOutMax bounds the length of a modelled command output (bytes).
const ExecOutMax = 8

const repoMod = "github.com/ErdemOzgen/blackdagger"

// Stubs of repo functions that are pure I/O shells (DESIGN.md section 3.4).
// The logger is a global no-op fake; everything else is opt-in per obligation
// through Engine.EnableStub.
func registerRepoStubs(e *Engine) {
	lg := "(*" + repoMod + "/internal/logger.appLogger)."
	for _, m := range []string{"Debug", "Info", "Warn", "Error", "Fatal", "Debugf", "Infof", "Warnf", "Errorf", "Fatalf", "Write"} {
		e.Intr[lg+m] = func(c *Call) []*State { return c.Return(nil) }
	}
	self := func(c *Call) []*State {
		return c.Return(Iface{T: c.Fn.Signature.Recv().Type(), V: c.Args[0]})
	}
	e.Intr[lg+"With"] = self
	e.Intr[lg+"WithGroup"] = self
	e.Intr[repoMod+"/internal/logger.NewLogger"] = func(c *Call) []*State {
		p := c.E.Prog.ImportedPackage(repoMod + "/internal/logger")
		t := types.NewPointer(p.Type("appLogger").Type())
		id := c.St.Alloc(Zero(p.Type("appLogger").Type()))
		return c.Return(Iface{T: t, V: Ptr{Obj: id}})
	}
	e.Intr[repoMod+"/internal/util.LogErr"] = func(c *Call) []*State { return c.Return(nil) }
}

// EnableStub installs an opt-in stub: kind is one of
//   zero        return zero values
//   nondet-err  return a nondet error (nil or a fresh error) as the last result, zero otherwise
func (e *Engine) EnableStub(name, kind string) {
	full := strings.ReplaceAll(name, "@", repoMod)
	switch kind {
	case "zero":
		e.Intr[full] = func(c *Call) []*State { return c.Return(zeroRet(c)) }
	case "nondet-err":
		e.Intr[full] = func(c *Call) []*State {
			b := FreshVar("stub.err:"+c.Fn.Name(), SBool, 0)
			c.St.Nondets = append(c.St.Nondets, NondetRec{Tag: "stub.err:" + c.Fn.Name(), Kind: "bool", Term: b})
			errv := c.E.newErrorString(c.St, StrC("stub error from "+c.Fn.Name()))
			mk := func(ev Value) Value {
				res := c.Fn.Signature.Results()
				if res.Len() == 1 {
					return ev
				}
				t := make(Tuple, res.Len())
				for i := 0; i < res.Len()-1; i++ {
					t[i] = Zero(res.At(i).Type())
				}
				t[res.Len()-1] = ev
				return t
			}
			return c.Outcomes(c.sol2(), []Outcome{{Cond: b, Ret: mk(errv)}, {Cond: Not(b), Ret: mk(Iface{})}})
		}
	case "cond-eq":
		// dag.EvalConditions on literal conditions (no $, no backtick, no "re:" prefix):
		// ExpandEnv and substituteCommands are the identity and MatchPattern(exact) is
		// equality, so the result is nil iff every Condition equals its Expected.
		e.Intr[full] = func(c *Call) []*State {
			sl := c.Args[0].(Slice)
			all := True
			for i := 0; i < sl.Len; i++ {
				el := c.St.Load(Ptr{Obj: sl.Obj, Path: []int{sl.Off + i}}).(*Struct)
				all = And(all, Eq(el.F[0].(*Term), el.F[1].(*Term)))
			}
			errv := c.E.newErrorString(c.St, StrC("condition was not met"))
			return c.Outcomes(c.sol2(), []Outcome{{Cond: all, Ret: Iface{}}, {Cond: Not(all), Ret: errv}})
		}
	case "subst-cmd":
		// dag.substituteCommands(input): an I/O shell (runs every `...` segment through
		// os/exec). Summary: no backtick segment => (input, nil), nothing executed;
		// otherwise a ghost "exec" event and an arbitrary (string, error).
		e.Intr[full] = func(c *Call) []*State {
			in := c.argTerm(0)
			m := StrInRe(in, Raw(SRegLan, 0, "(re.++ re.all (str.to_re \"`\") (re.+ (re.diff re.allchar (str.to_re \"`\"))) (str.to_re \"`\") re.all)"))
			out := FreshVar("subst.out", SString, 0)
			c.St.Assume(intCmp("<=", StrLenInt(out), IntC(ExecOutMax)))
			ok := FreshVar("subst.ok", SBool, 0)
			c.St.Nondets = append(c.St.Nondets, NondetRec{Tag: "subst.ok", Kind: "bool", Term: ok})
			errv := c.E.newErrorString(c.St, StrC("exec: command failed"))
			ev := func(s *State) { s.Events = append(s.Events, Event{Kind: "exec", Args: []Value{in}, Thr: c.Th.ID}) }
			// a NUL byte in the command makes fork/exec fail natively whatever the replay's fake
			// shell says: the success outcome stays in the exploration (over-approximation) but
			// is not used as a translator-validation sample
			nul := StrContains(in, StrC("\x00"))
			evNul := func(s *State) { ev(s); s.NoReplay = true }
			return c.Outcomes(c.sol2(), []Outcome{
				{Cond: Not(m), Ret: Tuple{in, Iface{}}},
				{Cond: And(m, ok, Not(nul)), Ret: Tuple{out, Iface{}}, Eff: ev},
				{Cond: And(m, ok, nul), Ret: Tuple{out, Iface{}}, Eff: evNul},
				{Cond: And(m, Not(ok)), Ret: Tuple{StrC(""), errv}, Eff: ev},
			})
		}
	case "load-yaml", "load-file":
		// dag.LoadYAML(data) / dag.LoadWithoutEval(path) / dag.LoadMetadata(path): the YAML
		// decoder is outside the model. A constant text is a valid definition iff it contains
		// "command:" (the harness menu marks validity that way); any other text (torn prefixes,
		// symbolic strings) is valid according to an uninterpreted predicate.
		e.Intr[full] = func(c *Call) []*State {
			dagT := c.E.Prog.ImportedPackage(repoMod + "/internal/dag").Type("DAG").Type()
			valid := func(text *Term) *Term {
				if text.Const {
					return BoolC(text.S == "" || strings.Contains(text.S, "command:")) // the empty document is a valid (empty) definition
				}
				DeclareFun("yaml_valid", "(declare-fun |yaml_valid| (String) Bool)")
				return App("yaml_valid", SBool, 0, text)
			}
			mk := func(st *State, loc *Term) Value {
				z := Zero(dagT).(*Struct)
				nf := append([]Value(nil), z.F...)
				if loc != nil {
					nf[fieldIndexByName(dagT, "Location")] = loc
					nf[fieldIndexByName(dagT, "Name")] = c.E.baseSym(st, loc)
				}
				return Ptr{Obj: st.Alloc(&Struct{F: nf})}
			}
			errv := func(st *State, msg string) Value { return c.E.newErrorString(st, StrC(msg)) }
			if kind == "load-yaml" {
				text := c.E.bytesTerm(c.St, c.Args[0])
				v := valid(text)
				return c.outcomesNoRet(c.sol2(), []Outcome{
					{Cond: v, Eff: func(st *State) { c.E.setLocal(st.Threads[c.Th.ID].top(), c.RetTo, Tuple{mk(st, nil), Iface{}}) }},
					{Cond: Not(v), Eff: func(st *State) { c.E.setLocal(st.Threads[c.Th.ID].top(), c.RetTo, Tuple{Ptr{}, errv(st, "invalid definition")}) }},
				})
			}
			path := c.argTerm(0)
			// craftFilePath: add .yaml when there is no yaml/yml extension
			if path.Const && !strings.HasSuffix(path.S, ".yaml") && !strings.HasSuffix(path.S, ".yml") {
				path = StrC(path.S + ".yaml")
			}
			return c.E.fsResolve(c, path, func(st *State, idx int) Value {
				if idx < 0 || !st.fs().Files[idx].Exists {
					return Tuple{Ptr{}, errv(st, "failed to read file")}
				}
				text := c.E.fsContent(st, idx)
				v := valid(text)
				if !v.Const {
					panic(unsupported("load-file stub on a file with non-constant content"))
				}
				if !v.B {
					return Tuple{Ptr{}, errv(st, "invalid definition")}
				}
				return Tuple{mk(st, path), Iface{}}
			})
		}
	case "sock-request":
		// (*sock.Client).Request: an I/O shell. No live listener at the address => "dial failed"
		// error (not ErrTimeout); live => the registered payload; hung peer => ErrTimeout.
		e.Intr[full] = func(c *Call) []*State {
			cl := c.St.Load(c.Args[0].(Ptr)).(*Struct)
			addr := cl.F[0].(*Term)
			if !addr.Const {
				panic(unsupported("sock.Client.Request with symbolic address"))
			}
			// a listener bound through the net.Listen model answers through the registered handler
			gk := fmt.Sprintf("sockreq:%d:%d", c.Th.ID, len(c.Th.Frames))
			if _, pending := c.St.Ghost[gk]; pending {
				body := c.St.Ghost[gk+":ret"]
				delete(c.St.Ghost, gk)
				delete(c.St.Ghost, gk+":ret")
				return c.Return(Tuple{body, Iface{}})
			}
			if _, listening := c.St.Ghost["listening:"+addr.S]; listening {
				if h, ok := c.St.Ghost["sockhandler:"+addr.S]; ok {
					c.St.Events = append(c.St.Events, Event{Kind: "sock-request", Args: []Value{addr, c.Args[1], c.Args[2]}, Thr: c.Th.ID})
					c.St.Ghost[gk] = True
					c.Retry()
					n := len(c.Th.Frames)
					if succ := c.E.invoke(c.St, c.Th, h.(*Closure), []Value{c.Args[1], c.Args[2]}, nil, c.Instr, false); succ != nil {
						panic(unsupported("socket handler is a forking intrinsic"))
					}
					if len(c.Th.Frames) > n {
						c.Th.top().OnRet = gk + ":ret"
					}
					return nil
				}
			}
			stv, ok := c.St.Ghost["sock:"+addr.S]
			c.St.Events = append(c.St.Events, Event{Kind: "sock-request", Args: []Value{addr, c.Args[1], c.Args[2]}, Thr: c.Th.ID})
			// no socket file: connect fails with ENOENT (errors.Is(err, os.ErrNotExist)); a stale file
			// left by a killed process: ECONNREFUSED
			dialErr := func(stale bool) Value {
				if stale {
					return c.E.newErrorString(c.St, StrC("dial failed: dial unix: connect: connection refused"))
				}
				g := c.E.Prog.ImportedPackage("os").Var("ErrNotExist")
				inner := c.St.Load(Ptr{Obj: c.E.globalObj(c.St, g)})
				return c.E.newWrapError(c.St, StrC("dial failed: dial unix: connect: no such file or directory"), inner)
			}
			if !ok {
				return c.Return(Tuple{StrC(""), dialErr(false)})
			}
			tp := stv.(Tuple)
			live, timeout := tp[0].(*Term), tp[1].(*Term)
			if !live.Const || !timeout.Const {
				panic(unsupported("vfSock with symbolic flags"))
			}
			if !live.B {
				stale := len(tp) > 3 && tp[3].(*Term).B
				return c.Return(Tuple{StrC(""), dialErr(stale)})
			}
			if timeout.B {
				g := c.E.Prog.ImportedPackage(repoMod + "/internal/sock").Var("ErrTimeout")
				inner := c.St.Load(Ptr{Obj: c.E.globalObj(c.St, g)})
				return c.Return(Tuple{StrC(""), c.E.newWrapError(c.St, StrC("request timeout: unix socket timeout"), inner)})
			}
			return c.Return(Tuple{tp[2], Iface{}})
		}
	case "json-lookup":
		// model.StatusFromJSON(s): succeeds iff s is a payload registered with vfJSON
		e.Intr[full] = func(c *Call) []*State {
			s := c.argTerm(0)
			if s.Const {
				if v, ok := c.St.Ghost["jsonobj:"+s.S]; ok {
					return c.Return(Tuple{v, Iface{}})
				}
			}
			return c.Return(Tuple{Ptr{}, c.E.newErrorString(c.St, StrC("invalid character in JSON"))})
		}
	default:
		panic("unknown stub kind " + kind)
	}
}
