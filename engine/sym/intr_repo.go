package sym

import (
	"go/types"
	"strings"
)

// ExecOutMax bounds the length of a modelled command output (bytes).
const ExecOutMax = 8

const repoMod = "github.com/ErdemOzgen/blackdagger"

// Stubs of repo functions that are pure I/O shells (DESIGN.md section 3.4).
// The logger is a global no-op fake; everything else is opt-in per obligation
// through Engine.EnableStub.
func registerRepoStubs(e *Engine) {
	lg := "(*" + repoMod + "/internal/logger.appLogger)."
	for _, m := range []string{"Debug", "Info", "Warn", "Error", "Fatal", "Debugf", "Infof", "Warnf", "Errorf", "Fatalf", "Write"} {
		e.Intr[lg+m] = func(c *Call) []*State { return c.Return(nil) }
	}
	self := func(c *Call) []*State {
		return c.Return(Iface{T: c.Fn.Signature.Recv().Type(), V: c.Args[0]})
	}
	e.Intr[lg+"With"] = self
	e.Intr[lg+"WithGroup"] = self
	e.Intr[repoMod+"/internal/logger.NewLogger"] = func(c *Call) []*State {
		p := c.E.Prog.ImportedPackage(repoMod + "/internal/logger")
		t := types.NewPointer(p.Type("appLogger").Type())
		id := c.St.Alloc(Zero(p.Type("appLogger").Type()))
		return c.Return(Iface{T: t, V: Ptr{Obj: id}})
	}
	e.Intr[repoMod+"/internal/util.LogErr"] = func(c *Call) []*State { return c.Return(nil) }
}

// EnableStub installs an opt-in stub: kind is one of
//   zero        return zero values
//   nondet-err  return a nondet error (nil or a fresh error) as the last result, zero otherwise
func (e *Engine) EnableStub(name, kind string) {
	full := strings.ReplaceAll(name, "@", repoMod)
	switch kind {
	case "zero":
		e.Intr[full] = func(c *Call) []*State { return c.Return(zeroRet(c)) }
	case "nondet-err":
		e.Intr[full] = func(c *Call) []*State {
			b := FreshVar("stub.err:"+c.Fn.Name(), SBool, 0)
			c.St.Nondets = append(c.St.Nondets, NondetRec{Tag: "stub.err:" + c.Fn.Name(), Kind: "bool", Term: b})
			errv := c.E.newErrorString(c.St, StrC("stub error from "+c.Fn.Name()))
			mk := func(ev Value) Value {
				res := c.Fn.Signature.Results()
				if res.Len() == 1 {
					return ev
				}
				t := make(Tuple, res.Len())
				for i := 0; i < res.Len()-1; i++ {
					t[i] = Zero(res.At(i).Type())
				}
				t[res.Len()-1] = ev
				return t
			}
			return c.Outcomes(c.sol2(), []Outcome{{Cond: b, Ret: mk(errv)}, {Cond: Not(b), Ret: mk(Iface{})}})
		}
	case "cond-eq":
		// dag.EvalConditions on literal conditions (no $, no backtick, no "re:" prefix):
		// ExpandEnv and substituteCommands are the identity and MatchPattern(exact) is
		// equality, so the result is nil iff every Condition equals its Expected.
		e.Intr[full] = func(c *Call) []*State {
			sl := c.Args[0].(Slice)
			all := True
			for i := 0; i < sl.Len; i++ {
				el := c.St.Load(Ptr{Obj: sl.Obj, Path: []int{sl.Off + i}}).(*Struct)
				all = And(all, Eq(el.F[0].(*Term), el.F[1].(*Term)))
			}
			errv := c.E.newErrorString(c.St, StrC("condition was not met"))
			return c.Outcomes(c.sol2(), []Outcome{{Cond: all, Ret: Iface{}}, {Cond: Not(all), Ret: errv}})
		}
	case "subst-cmd":
		// dag.substituteCommands(input): an I/O shell (runs every `...` segment through
		// os/exec). Summary: no backtick segment => (input, nil), nothing executed;
		// otherwise a ghost "exec" event and an arbitrary (string, error).
		e.Intr[full] = func(c *Call) []*State {
			in := c.argTerm(0)
			m := StrInRe(in, Raw(SRegLan, 0, "(re.++ re.all (str.to_re \"`\") (re.+ (re.diff re.allchar (str.to_re \"`\"))) (str.to_re \"`\") re.all)"))
			out := FreshVar("subst.out", SString, 0)
			c.St.Assume(intCmp("<=", StrLenInt(out), IntC(ExecOutMax)))
			ok := FreshVar("subst.ok", SBool, 0)
			c.St.Nondets = append(c.St.Nondets, NondetRec{Tag: "subst.ok", Kind: "bool", Term: ok})
			errv := c.E.newErrorString(c.St, StrC("exec: command failed"))
			ev := func(s *State) { s.Events = append(s.Events, Event{Kind: "exec", Args: []Value{in}, Thr: c.Th.ID}) }
			return c.Outcomes(c.sol2(), []Outcome{
				{Cond: Not(m), Ret: Tuple{in, Iface{}}},
				{Cond: And(m, ok), Ret: Tuple{out, Iface{}}, Eff: ev},
				{Cond: And(m, Not(ok)), Ret: Tuple{StrC(""), errv}, Eff: ev},
			})
		}
	default:
		panic("unknown stub kind " + kind)
	}
}
