package sym

import (
	"fmt"
	"regexp/syntax"
	"sort"
	"unicode"
)

// Exact regexp results on short symbolic strings (-regex-exact N).
//
// Go's regexp engine looks at a character only through the character sets that occur in
// the pattern (literals, classes, `.`'s newline test, line anchors, word boundaries). Two
// strings of the same length whose characters fall, position by position, into the same
// cells of the partition induced by those sets therefore produce the same match *positions*
// (leftmost-first, greedy/lazy, submatches included). The model forks over the cell of
// every symbolic character of the subject (length concretised, at most N), runs Go's own
// regexp on a representative of the cell vector, and returns the corresponding substrings of
// the symbolic subject. Exact within the ASCII alphabet; subjects longer than N fall back to
// the over-approximating models of intr_regexp.go.
var RegexExact int

type reCell struct {
	chars []byte
	rep   byte
}

func (c reCell) cond(code *Term) *Term {
	var alts []*Term
	for i := 0; i < len(c.chars); {
		j := i
		for j+1 < len(c.chars) && c.chars[j+1] == c.chars[j]+1 {
			j++
		}
		alts = append(alts, inRange(code, int64(c.chars[i]), int64(c.chars[j])))
		i = j + 1
	}
	return Or(alts...)
}

// reCells computes the partition of the ASCII alphabet induced by the pattern's character sets.
func reCells(pat string) ([]reCell, error) {
	re, err := syntax.Parse(pat, syntax.Perl)
	if err != nil {
		return nil, err
	}
	var sets [][]rune // each: pairs lo,hi
	var walk func(r *syntax.Regexp)
	walk = func(r *syntax.Regexp) {
		switch r.Op {
		case syntax.OpLiteral:
			for _, ch := range r.Rune {
				sets = append(sets, []rune{ch, ch})
				if r.Flags&syntax.FoldCase != 0 {
					for f := unicode.SimpleFold(ch); f != ch; f = unicode.SimpleFold(f) {
						sets = append(sets, []rune{f, f})
					}
				}
			}
		case syntax.OpCharClass:
			sets = append(sets, append([]rune(nil), r.Rune...))
		case syntax.OpAnyCharNotNL, syntax.OpBeginLine, syntax.OpEndLine:
			sets = append(sets, []rune{'\n', '\n'})
		case syntax.OpWordBoundary, syntax.OpNoWordBoundary:
			sets = append(sets, []rune{'0', '9', 'A', 'Z', '_', '_', 'a', 'z'})
		}
		for _, s := range r.Sub {
			walk(s)
		}
	}
	walk(re)
	sig := func(ch rune) string {
		b := make([]byte, len(sets))
		for i, s := range sets {
			b[i] = '0'
			for j := 0; j+1 < len(s); j += 2 {
				if s[j] <= ch && ch <= s[j+1] {
					b[i] = '1'
					break
				}
			}
		}
		return string(b)
	}
	bySig := map[string]*reCell{}
	var order []string
	for ch := 0; ch < 128; ch++ {
		k := sig(rune(ch))
		c, ok := bySig[k]
		if !ok {
			c = &reCell{}
			bySig[k] = c
			order = append(order, k)
		}
		c.chars = append(c.chars, byte(ch))
	}
	sort.Strings(order)
	var out []reCell
	for _, k := range order {
		c := bySig[k]
		c.rep = c.chars[0]
		for _, ch := range c.chars { // prefer a printable representative
			if ch > 0x20 && ch < 0x7f {
				c.rep = ch
				break
			}
		}
		out = append(out, *c)
	}
	return out, nil
}

// strCharAt returns the one-character string at byte i of s, resolving concatenations of
// pieces with known length; the bool reports a constant character.
func strCharAt(s *Term, i int) (*Term, bool) {
	if s.Const {
		if i < len(s.S) {
			return StrC(s.S[i : i+1]), true
		}
		return StrC(""), true
	}
	if s.Op == "str.++" {
		off := 0
		for _, a := range s.Args {
			ln := StrLenInt(a)
			if !ln.Const {
				break
			}
			n := int(ln.U)
			if i < off+n {
				return strCharAt(a, i-off)
			}
			off += n
		}
	}
	if s.Op == "str.substr" && s.Args[1].Const && s.Args[2].Const {
		if o := int64(s.Args[1].U); o >= 0 && int64(i) < int64(s.Args[2].U) {
			return strCharAt(s.Args[0], int(o)+i)
		}
	}
	return StrAt(s, IntC(int64(i))), false
}

// reExactRep decides (forking, with re-execution of the calling instruction) the length of
// s and the cell of each of its symbolic characters. Returns the representative string when
// everything is decided; forked=true when successor states were produced; ok=false when the
// exact mode does not apply (subject longer than the bound, unknown pattern).
func (e *Engine) reExactRep(c *Call, ri *reInfo, s *Term) (rep string, succ []*State, forked bool, ok bool) {
	if RegexExact <= 0 || !ri.Known {
		return "", nil, false, false
	}
	if s.Const {
		return s.S, nil, false, true
	}
	if ri.cells == nil {
		return "", nil, false, false
	}
	retry := func(key string, val int64) func(st *State) {
		return func(st *State) {
			nc := make(map[string]int64, len(st.Conc)+1)
			for k, v := range st.Conc {
				nc[k] = v
			}
			nc[key] = val
			st.Conc = nc
			st.Threads[c.Th.ID].top().IP--
		}
	}
	ln := StrLenInt(s)
	L := -1
	if ln.Const {
		L = int(ln.U)
	} else {
		key := "relen:" + s.SMT()
		v, decided := c.St.Conc[key]
		if !decided {
			var outs []Outcome
			for n := 0; n <= RegexExact; n++ {
				outs = append(outs, Outcome{Cond: Eq(ln, IntC(int64(n))), Eff: retry(key, int64(n))})
			}
			outs = append(outs, Outcome{Cond: intCmp(">", ln, IntC(int64(RegexExact))), Eff: retry(key, int64(RegexExact+1))})
			return "", c.outcomesNoRet(c.sol2(), outs), true, true
		}
		L = int(v)
	}
	if L > RegexExact {
		return "", nil, false, false
	}
	buf := make([]byte, L)
	for i := 0; i < L; i++ {
		ch, isConst := strCharAt(s, i)
		if isConst {
			if len(ch.S) != 1 || ch.S[0] >= 128 {
				return "", nil, false, false
			}
			buf[i] = ch.S[0]
			continue
		}
		key := fmt.Sprintf("recell:%s:%s", ri.Pat, ch.SMT()) // per character term: shared by every subject built from it
		v, decided := c.St.Conc[key]
		if !decided {
			code := StrToCode(ch)
			var outs []Outcome
			for k, cell := range ri.cells {
				outs = append(outs, Outcome{Cond: cell.cond(code), Eff: retry(key, int64(k))})
			}
			return "", c.outcomesNoRet(c.sol2(), outs), true, true
		}
		buf[i] = ri.cells[v].rep
	}
	return string(buf), nil, false, true
}

// reSub is the substring [a,b) of s (positions from the representative's match).
func reSub(s *Term, a, b int) *Term {
	if a < 0 || b < 0 {
		return StrC("")
	}
	if a == b {
		return StrC("")
	}
	return StrSubstr(s, IntC(int64(a)), IntC(int64(b-a)))
}
