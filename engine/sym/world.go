package sym

// World holds the environment model state (file system, environment
// variables, sockets, ...). Cloned with the State.
type World struct {
	Env   []EnvVar
	FS    *FSWorld
	Extra map[string]interface{} // immutable values only
}

type EnvVar struct {
	Key *Term
	Val *Term
	Set bool // false => unset
}

func NewWorld() *World { return &World{Extra: map[string]interface{}{}} }

func (w *World) Clone() *World {
	nw := &World{}
	nw.Env = append([]EnvVar(nil), w.Env...)
	if w.FS != nil {
		nw.FS = w.FS.Clone()
	}
	nw.Extra = make(map[string]interface{}, len(w.Extra))
	for k, v := range w.Extra {
		nw.Extra[k] = v
	}
	return nw
}
