package sym

import (
	"go/types"

	"github.com/robfig/cron/v3"
)

// robfig/cron model (DESIGN.md 3.3): Parser.Parse decides constant specs with the real
// parser (standard 5 fields, as blackdagger configures it); a symbolic spec is valid
// according to an uninterpreted predicate, except that specs shorter than 9 bytes are
// always invalid (five fields need at least "* * * * *"; descriptors are disabled).

var realCronParser = cron.NewParser(cron.Minute | cron.Hour | cron.Dom | cron.Month | cron.Dow)

func registerCron(e *Engine) {
	e.Intr["(github.com/robfig/cron/v3.Parser).Parse"] = func(c *Call) []*State {
		spec := c.argTerm(1)
		mkSched := func(st *State) Value {
			p := c.E.Prog.ImportedPackage("github.com/robfig/cron/v3")
			t := p.Type("SpecSchedule").Type()
			id := st.Alloc(Zero(t))
			st.Ghost[ptrKey(Ptr{Obj: id})+":cronspec"] = spec
			return Iface{T: types.NewPointer(t), V: Ptr{Obj: id}}
		}
		errv := c.E.newErrorString(c.St, StrC("invalid cron expression"))
		if spec.Const {
			if _, err := realCronParser.Parse(spec.S); err != nil {
				return c.Return(Tuple{Iface{}, errv})
			}
			return c.Return(Tuple{mkSched(c.St), Iface{}})
		}
		DeclareFun("cron_valid", "(declare-fun |cron_valid| (String) Bool)")
		valid := App("cron_valid", SBool, 0, spec)
		c.St.Assume(Implies(intCmp("<", StrLenInt(spec), IntC(9)), Not(valid)))
		return c.outcomesNoRet(c.sol2(), []Outcome{
			{Cond: valid, Eff: func(s *State) {
				e.setLocal(s.Threads[c.Th.ID].top(), c.RetTo, Tuple{mkSched(s), Iface{}})
			}},
			{Cond: Not(valid), Eff: func(s *State) {
				e.setLocal(s.Threads[c.Th.ID].top(), c.RetTo, Tuple{Iface{}, errv})
			}},
		})
	}
}
