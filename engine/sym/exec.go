package sym

import (
	"fmt"
	"os"
	"go/constant"
	"go/token"
	"go/types"
	"runtime"
	"sort"
	"strings"
	"sync"
	"sync/atomic"
	"time"

	"golang.org/x/tools/go/ssa"
)

type Config struct {
	Unwind           int // max visits of one block per frame
	MaxSteps         int // per path
	MaxPaths         int // safety cap
	MaxDelays        int // delay bound D
	Jobs             int
	ExecPrefixes     []string // package path prefixes executed from SSA
	StopAtFirst      bool
	ConcreteClock    bool
	UnwindCut        bool // loops that exceed the bound cut the path (counted) instead of failing the obligation
	Deadline         time.Time
	TraceInstr       bool
	PanicIsViolation bool
	PollUnwind       int // max iterations of polling loops (sleep based) before path cut
}

type Engine struct {
	Prog      *ssa.Program
	Fset      *token.FileSet
	Cfg       Config
	Pool      *SolverPool
	abortFlag int32
	Pool2     *SolverPool   // fallback for unknown answers (may be nil)
	SlowPools []*SolverPool // assertion-only last resort: long time limit
	Fallbacks int64
	Intr      map[string]Intrinsic
	HPkgs     map[string]bool // harness package paths
	RepoDir   string

	mu       sync.Mutex
	work     []*State
	inflight int
	cond     *sync.Cond
	stateCtr int32

	// results
	Paths       int64
	PathsCut    int64
	PathsInfeas int64
	Instrs      int64
	Forks       int64
	FeasQ       [3]int64
	AssertQ     [3]int64
	Violations  []*Violation
	vioSeen     map[string]bool
	Reached     map[string]int64
	AssertSites map[string]int64
	Unsupported map[string]int
	FnsExec     map[string]int
	IntrHit     map[string]int64
	CutReasons  map[string]int64
	Aborted     string
	SampleQ     []string
	initDone    map[*ssa.Package]bool
	inInit      bool
	SamplePaths int
	Samples     []PathSample
	spare       []*State // eligible completed paths not picked by the stride rule; used to fill Samples at the end
	InitPoison  []string
	Hooks       Hooks
}

// Hooks let the driver observe path ends.
type Hooks struct {
	OnPathEnd func(e *Engine, st *State)
}

type PathSample struct {
	Model  []NondetVal `json:"model"`
	Labels []string    `json:"labels"`
	Path   int         `json:"path"`
}

type Intrinsic func(c *Call) []*State

// Call context handed to intrinsics.
type Call struct {
	E     *Engine
	St    *State
	Th    *Thread
	Fn    *ssa.Function
	Name  string
	Args  []Value
	RetTo ssa.Value // nil when result is discarded (defer / go)
	Fr    *Frame    // caller frame (may be nil for thread roots)
	Instr ssa.Instruction
	sol   *Solver
}

func NewEngine(prog *ssa.Program, fset *token.FileSet, cfg Config, pool *SolverPool) *Engine {
	e := &Engine{Prog: prog, Fset: fset, Cfg: cfg, Pool: pool, Intr: map[string]Intrinsic{},
		HPkgs: map[string]bool{}, vioSeen: map[string]bool{}, Reached: map[string]int64{}, AssertSites: map[string]int64{},
		Unsupported: map[string]int{}, FnsExec: map[string]int{}, IntrHit: map[string]int64{}, CutReasons: map[string]int64{},
		initDone: map[*ssa.Package]bool{}}
	e.cond = sync.NewCond(&e.mu)
	registerIntrinsics(e)
	return e
}

// ---------------------------------------------------------------- exploration

func (e *Engine) push(sts ...*State) {
	e.mu.Lock()
	for _, s := range sts {
		if s != nil {
			e.work = append(e.work, s)
		}
	}
	e.mu.Unlock()
	e.cond.Broadcast()
}

func (e *Engine) pop() *State {
	e.mu.Lock()
	defer e.mu.Unlock()
	for {
		if e.Aborted != "" {
			return nil
		}
		if n := len(e.work); n > 0 {
			s := e.work[n-1]
			e.work = e.work[:n-1]
			e.inflight++
			return s
		}
		if e.inflight == 0 {
			return nil
		}
		e.cond.Wait()
	}
}

func (e *Engine) done1() {
	e.mu.Lock()
	e.inflight--
	e.mu.Unlock()
	e.cond.Broadcast()
}

func (e *Engine) abort(msg string) {
	e.mu.Lock()
	if e.Aborted == "" {
		e.Aborted = msg
	}
	e.mu.Unlock()
	atomic.StoreInt32(&e.abortFlag, 1)
	e.cond.Broadcast()
}

// Explore runs entry() from a fresh state (after package initialisation)
// until all paths are exhausted.
func (e *Engine) Explore(entry *ssa.Function, initPkgs []*ssa.Package) {
	st := NewState()
	st.Threads = []*Thread{{ID: 0, Name: "main"}}
	// run package inits sequentially on the initial state
	for _, p := range initPkgs {
		e.runInit(st, p)
		if e.Aborted != "" {
			return
		}
	}
	th := st.Threads[0]
	th.Frames = nil
	th.Status = TRunnable
	e.pushFrame(st, th, entry, nil, nil, nil)
	e.push(st)
	if !e.Cfg.Deadline.IsZero() {
		stop := make(chan struct{})
		defer close(stop)
		go func() {
			select {
			case <-stop:
			case <-time.After(time.Until(e.Cfg.Deadline)):
				e.abort("deadline exceeded")
				e.Pool.KillAll()
				for _, sp := range e.SlowPools {
					sp.KillAll()
				}
				if e.Pool2 != nil {
					e.Pool2.KillAll()
				}
			}
		}()
	}
	var wg sync.WaitGroup
	jobs := e.Cfg.Jobs
	if jobs < 1 {
		jobs = 1
	}
	for i := 0; i < jobs; i++ {
		wg.Add(1)
		go func() {
			defer wg.Done()
			for {
				s := e.pop()
				if s == nil {
					return
				}
				succ := e.runPath(s)
				e.push(succ...)
				e.done1()
			}
		}()
	}
	wg.Wait()
	if e.Aborted == "" {
		for _, st := range e.spare {
			if len(e.Samples) >= e.SamplePaths {
				break
			}
			sol := e.Pool.Get()
			m, ok := e.Model(sol, st)
			e.Pool.Put(sol)
			if ok {
				e.Samples = append(e.Samples, PathSample{Model: m, Labels: append([]string(nil), st.Labels...), Path: st.ID})
			}
		}
	}
	e.spare = nil
}

func (e *Engine) runInit(st *State, p *ssa.Package) {
	if e.initDone[p] {
		return
	}
	e.initDone[p] = true
	initFn := p.Func("init")
	if initFn == nil {
		return
	}
	th := st.Threads[0]
	th.Frames = nil
	th.Status = TRunnable
	th.Panic = nil
	e.pushFrame(st, th, initFn, nil, nil, nil)
	sol := e.Pool.Get()
	defer e.Pool.Put(sol)
	e.inInit = true
	defer func() { e.inInit = false }()
	for len(th.Frames) > 0 {
		succ, cont := e.initStep(st, sol)
		if !cont {
			if len(succ) == 1 && succ[0] == st {
				continue
			}
			if th.Panic != nil {
				e.abort(fmt.Sprintf("init of %s panicked: %s at %s", p.Pkg.Path(), th.Panic.Msg, th.Panic.Pos))
			} else if len(th.Frames) > 0 {
				e.abort(fmt.Sprintf("init of %s forked or ended unexpectedly", p.Pkg.Path()))
			}
			return
		}
		if e.Aborted != "" {
			return
		}
	}
}

// initStep runs one instruction of a package initialiser; an instruction the
// engine cannot execute yields a poisoned value instead of aborting.
func (e *Engine) initStep(st *State, sol *Solver) (succ []*State, cont bool) {
	th := st.cur()
	fr := th.top()
	var in ssa.Instruction
	if fr != nil && !fr.Unwinding && fr.IP < len(fr.Block.Instrs) {
		in = fr.Block.Instrs[fr.IP]
	}
	nframes := len(th.Frames)
	defer func() {
		if r := recover(); r != nil {
			if in == nil {
				panic(r)
			}
			// drop frames pushed by the failed instruction, poison its result
			th.Frames = th.Frames[:nframes]
			fr := th.top()
			if v, ok := in.(ssa.Value); ok {
				fr.Locals[fr.Info.Index[v]] = Opaque{Kind: "poison", Data: fmt.Sprint(r)}
			}
			// locate instruction again (IP may have been advanced by Call)
			for i, x := range fr.Block.Instrs {
				if x == in {
					fr.IP = i + 1
				}
			}
			e.mu.Lock()
			e.InitPoison = append(e.InitPoison, fmt.Sprintf("%s: %v", posStr(e.Fset, in.Pos()), r))
			e.mu.Unlock()
			succ, cont = nil, true
		}
	}()
	return e.step(st, sol)
}

// runPath executes st until it forks or ends; returns successor states.
func (e *Engine) runPath(st *State) []*State {
	sol := e.Pool.Get()
	defer e.Pool.Put(sol)
	defer func() {
		if r := recover(); r != nil {
			if me, ok := r.(memErr); ok {
				e.abort("engine memory error: " + me.msg + " at " + e.curPos(st))
				return
			}
			if us, ok := r.(unsupported); ok {
				e.noteUnsupported(string(us) + " at " + e.curPos(st))
				return
			}
			if re, ok := r.(runtime.Error); ok {
				e.noteUnsupported("engine type confusion (possibly a poisoned init value): " + re.Error() + " at " + e.curPos(st))
				return
			}
			panic(r)
		}
	}()
	for {
		if atomic.LoadInt32(&e.abortFlag) != 0 {
			return nil
		}
		if st.Steps > e.Cfg.MaxSteps {
			e.endPath(st, "max-steps")
			return nil
		}
		succ, cont := e.step(st, sol)
		if cont {
			continue
		}
		if len(succ) == 1 && succ[0] == st {
			continue
		}
		if len(succ) > 1 {
			atomic.AddInt64(&e.Forks, int64(len(succ)-1))
		}
		return succ
	}
}

type unsupported string

func (e *Engine) noteUnsupported(msg string) {
	e.mu.Lock()
	e.Unsupported[msg]++
	if e.Aborted == "" {
		e.Aborted = "unsupported: " + msg
	}
	e.mu.Unlock()
	atomic.StoreInt32(&e.abortFlag, 1)
	e.cond.Broadcast()
}

func (e *Engine) curPos(st *State) string {
	if st.Cur >= len(st.Threads) {
		return "?"
	}
	th := st.cur()
	for i := len(th.Frames) - 1; i >= 0; i-- {
		fr := th.Frames[i]
		if fr.Block != nil && fr.IP < len(fr.Block.Instrs) {
			in := fr.Block.Instrs[fr.IP]
			if in.Pos().IsValid() {
				return posStr(e.Fset, in.Pos()) + " in " + fr.Info.Fn.String()
			}
		}
		ip := fr.IP - 1
		if fr.Block != nil && ip >= 0 && ip < len(fr.Block.Instrs) {
			in := fr.Block.Instrs[ip]
			if in.Pos().IsValid() {
				return posStr(e.Fset, in.Pos()) + " in " + fr.Info.Fn.String()
			}
		}
	}
	if f := th.top(); f != nil {
		return "in " + f.Info.Fn.String()
	}
	return "?"
}

// endPath records a finished (or cut) path.
func (e *Engine) endPath(st *State, cut string) {
	st.Ended = true
	st.Cut = cut
	if e.inInit {
		return
	}
	if cut == "" {
		atomic.AddInt64(&e.Paths, 1)
	} else if cut == "infeasible" {
		atomic.AddInt64(&e.PathsInfeas, 1)
	} else {
		atomic.AddInt64(&e.PathsCut, 1)
		e.mu.Lock()
		e.CutReasons[cut]++
		e.mu.Unlock()
	}
	if e.Hooks.OnPathEnd != nil {
		e.Hooks.OnPathEnd(e, st)
	}
	if cut == "" && e.SamplePaths > 0 && !st.NoReplay {
		e.mu.Lock()
		take := len(e.Samples) < e.SamplePaths && st.ID%7 == len(e.Samples)%7
		if !take && len(e.spare) < e.SamplePaths {
			e.spare = append(e.spare, st)
		}
		e.mu.Unlock()
		if take {
			sol := e.Pool.Get()
			m, ok := e.Model(sol, st)
			e.Pool.Put(sol)
			if ok {
				e.mu.Lock()
				if len(e.Samples) < e.SamplePaths {
					e.Samples = append(e.Samples, PathSample{Model: m, Labels: append([]string(nil), st.Labels...), Path: st.ID})
				}
				e.mu.Unlock()
			}
		}
	}
	if e.Cfg.MaxPaths > 0 && atomic.LoadInt64(&e.Paths)+atomic.LoadInt64(&e.PathsCut) > int64(e.Cfg.MaxPaths) {
		e.abort("max paths exceeded")
	}
}

// ---------------------------------------------------------------- solver helpers

func (e *Engine) check(sol *Solver, st *State, extra ...*Term) Result {
	as := make([]*Term, 0, len(st.PC)+len(extra))
	as = append(as, st.PC...)
	as = append(as, extra...)
	for _, a := range as {
		if a.Const && !a.B {
			return Unsat
		}
	}
	r, _ := sol.Check(as, nil)
	if r == Unknown && e.Pool2 != nil {
		s2 := e.Pool2.Get()
		r, _ = s2.Check(as, nil)
		e.Pool2.Put(s2)
		atomic.AddInt64(&e.Fallbacks, 1)
	}
	atomic.AddInt64(&e.FeasQ[r], 1)
	if r == Unsat && len(e.SampleQ) < 2 && !e.inInit {
		e.mu.Lock()
		if len(e.SampleQ) < 2 {
			var b strings.Builder
			b.WriteString("feasibility(unsat => branch pruned): ")
			for _, a := range as {
				b.WriteString("(assert " + a.SMT() + ") ")
			}
			q := b.String()
			if len(q) > 1200 {
				q = q[:1200] + "..."
			}
			e.SampleQ = append(e.SampleQ, q)
		}
		e.mu.Unlock()
	}
	return r
}

// Feasible reports whether pc ∧ t can be true (unknown counts as feasible).
func (e *Engine) Feasible(sol *Solver, st *State, t *Term) bool {
	switch st.quick(t) {
	case 1:
		return true
	case 0:
		return false
	}
	return e.check(sol, st, t) != Unsat
}

// branch splits st on cond. Returns (stTrue, stFalse); either may be nil.
// st itself is reused for one of the sides.
func (e *Engine) branch(sol *Solver, st *State, cond *Term) (*State, *State) {
	switch st.quick(cond) {
	case 1:
		return st, nil
	case 0:
		return nil, st
	}
	rt := e.check(sol, st, cond)
	if rt == Unsat {
		st.Assume(Not(cond))
		return nil, st
	}
	rf := e.check(sol, st, Not(cond))
	if rf == Unsat {
		st.Assume(cond)
		return st, nil
	}
	other := st.Clone()
	other.ID = int(atomic.AddInt32(&e.stateCtr, 1))
	st.Assume(cond)
	other.Assume(Not(cond))
	return st, other
}

// ---------------------------------------------------------------- frames

func (e *Engine) pushFrame(st *State, th *Thread, fn *ssa.Function, args []Value, binds []Value, retTo ssa.Value) *Frame {
	if len(fn.Blocks) == 0 {
		panic(unsupported("call of body-less function " + fn.String()))
	}
	fi := infoOf(fn)
	fr := &Frame{Info: fi, Block: fn.Blocks[0], Locals: make([]Value, fi.N), RetTo: retTo}
	if len(args) != len(fn.Params) {
		panic(fmt.Sprintf("arg count mismatch calling %s: %d vs %d", fn, len(args), len(fn.Params)))
	}
	for i, a := range args {
		fr.Locals[i] = a
	}
	for i, b := range binds {
		fr.Locals[len(fn.Params)+i] = b
	}
	th.Frames = append(th.Frames, fr)
	e.mu.Lock()
	e.FnsExec[fn.String()]++
	e.mu.Unlock()
	if len(th.Frames) > 200 {
		panic(unsupported("call depth > 200 in " + fn.String()))
	}
	return fr
}

func (e *Engine) eval(st *State, fr *Frame, v ssa.Value) Value {
	switch x := v.(type) {
	case *ssa.Const:
		return e.constVal(x)
	case *ssa.Global:
		return Ptr{Obj: e.globalObj(st, x)}
	case *ssa.Function:
		return &Closure{Fn: x}
	case *ssa.Builtin:
		return &Closure{Builtin: x.Name()}
	}
	idx, ok := fr.Info.Index[v]
	if !ok {
		panic(fmt.Sprintf("no slot for %s (%T) in %s", v.Name(), v, fr.Info.Fn))
	}
	r := fr.Locals[idx]
	if r == nil {
		panic(fmt.Sprintf("read of unset local %s in %s", v.Name(), fr.Info.Fn))
	}
	return r
}

func (e *Engine) setLocal(fr *Frame, v ssa.Value, val Value) {
	if val == nil {
		panic("setLocal nil for " + v.Name())
	}
	fr.Locals[fr.Info.Index[v]] = val
}

func (e *Engine) constVal(c *ssa.Const) Value {
	t := c.Type()
	if c.Value == nil {
		return Zero(t)
	}
	switch u := t.Underlying().(type) {
	case *types.Basic:
		switch {
		case u.Info()&types.IsBoolean != 0:
			return BoolC(constant.BoolVal(c.Value))
		case u.Info()&types.IsString != 0:
			return StrC(constant.StringVal(c.Value))
		case u.Info()&types.IsFloat != 0:
			f, _ := constant.Float64Val(c.Value)
			return Float{Known: true, V: f}
		}
		if w, signed, ok := intWidth(t); ok {
			if signed {
				i, _ := constant.Int64Val(constant.ToInt(c.Value))
				return BVC(uint64(i), w)
			}
			i, _ := constant.Uint64Val(constant.ToInt(c.Value))
			return BVC(i, w)
		}
	}
	panic(unsupported("const of type " + t.String()))
}

func (e *Engine) globalObj(st *State, g *ssa.Global) int {
	if id, ok := st.Globals[g]; ok {
		return id
	}
	elem := g.Type().(*types.Pointer).Elem()
	var v Value
	if g.Pkg != nil && e.execPkg(g.Pkg.Pkg.Path()) {
		v = Zero(elem)
	} else {
		v = e.externGlobal(st, g, elem)
	}
	id := st.Alloc(v)
	st.Globals[g] = id
	return id
}

func (e *Engine) execPkg(path string) bool {
	if e.HPkgs[path] {
		return true
	}
	for _, p := range e.Cfg.ExecPrefixes {
		if strings.HasPrefix(path, p) {
			return true
		}
	}
	return false
}

// externGlobal synthesises the value of a global of a package whose init is
// not executed. Supported: error sentinels created by errors.New(const).
func (e *Engine) externGlobal(st *State, g *ssa.Global, elem types.Type) Value {
	if initFn := g.Pkg.Func("init"); initFn != nil {
		for _, b := range initFn.Blocks {
			for _, in := range b.Instrs {
				s, ok := in.(*ssa.Store)
				if !ok || s.Addr != ssa.Value(g) {
					continue
				}
				if call, ok := s.Val.(*ssa.Call); ok {
					if cal := call.Call.StaticCallee(); cal != nil && (cal.String() == "errors.New") {
						if k, ok := call.Call.Args[0].(*ssa.Const); ok {
							return e.newErrorString(st, StrC(constant.StringVal(k.Value)))
						}
					}
				}
				if mi, ok := s.Val.(*ssa.MakeInterface); ok {
					// e.g. var ErrX error = &T{...} : opaque identity object
					_ = mi
				}
			}
		}
	}
	if types.IsInterface(elem) && elem.String() == "error" {
		return e.newErrorString(st, StrC(g.Pkg.Pkg.Name()+"."+g.Name()))
	}
	switch elem.Underlying().(type) {
	case *types.Pointer:
		// opaque singleton object (os.Stdout, time.Local, ...)
		pe := elem.Underlying().(*types.Pointer).Elem()
		var inner Value
		func() {
			defer func() {
				if recover() != nil {
					inner = &Struct{}
				}
			}()
			inner = Zero(pe)
		}()
		id := st.Alloc(inner)
		return Ptr{Obj: id}
	}
	panic(unsupported("read of external global " + g.String()))
}

func (e *Engine) errorStringType() types.Type {
	p := e.Prog.ImportedPackage("errors")
	if p == nil {
		panic(unsupported("errors package not loaded"))
	}
	return types.NewPointer(p.Type("errorString").Type())
}

func (e *Engine) newErrorString(st *State, msg *Term) Value {
	id := st.Alloc(&Struct{F: []Value{msg}})
	return Iface{T: e.errorStringType(), V: Ptr{Obj: id}}
}

// ---------------------------------------------------------------- panics

func (e *Engine) raise(st *State, th *Thread, kind, msg string, val Value) {
	pi := &PanicInfo{Kind: kind, Msg: msg, Val: val}
	// find innermost repo position
	for i := len(th.Frames) - 1; i >= 0; i-- {
		fr := th.Frames[i]
		ip := fr.IP
		if i < len(th.Frames)-1 {
			ip = fr.IP - 1
		}
		if fr.Block != nil && ip >= 0 && ip < len(fr.Block.Instrs) {
			in := fr.Block.Instrs[ip]
			ps := posStr(e.Fset, in.Pos())
			pi.Stack = append(pi.Stack, fr.Info.Fn.String()+" "+ps)
			if pi.Pos == "" && in.Pos().IsValid() && fr.Info.Fn.Pkg != nil && !e.HPkgsFn(fr.Info.Fn) {
				pi.Pos = ps
				pi.Fn = fr.Info.Fn.String()
			}
		}
	}
	if pi.Pos == "" && len(pi.Stack) > 0 {
		pi.Pos = pi.Stack[0]
		pi.Fn = th.top().Info.Fn.String()
	}
	th.Panic = pi
	if f := th.top(); f != nil {
		f.Unwinding = true
	}
}

// HPkgsFn: is fn a harness function (zz_verif file)?
func (e *Engine) HPkgsFn(fn *ssa.Function) bool {
	if fn.Pos().IsValid() {
		return strings.Contains(e.Fset.Position(fn.Pos()).Filename, "zz_verif")
	}
	if fn.Parent() != nil {
		return e.HPkgsFn(fn.Parent())
	}
	return false
}

// unwind processes a panicking / recovered frame. Returns true if the thread
// still has something to execute.
func (e *Engine) unwind(st *State, th *Thread) {
	for {
		fr := th.top()
		if fr == nil {
			return
		}
		if len(fr.Defers) > 0 {
			d := fr.Defers[len(fr.Defers)-1]
			fr.Defers = fr.Defers[:len(fr.Defers)-1]
			fr.Unwinding = true
			pushed := e.invokeDeferred(st, th, d)
			if pushed {
				return // execute it; we come back because fr.Unwinding is set
			}
			continue
		}
		// no more defers in this frame
		if th.Panic == nil {
			// recovered: resume at Recover block or return zero values
			fr.Unwinding = false
			if rb := fr.Info.Fn.Recover; rb != nil {
				fr.Prev = fr.Block
				fr.Block = rb
				fr.IP = 0
				return
			}
			e.doReturn(st, th, zeroResults(fr.Info.Fn))
			return
		}
		// propagate to caller
		th.Frames = th.Frames[:len(th.Frames)-1]
		if len(th.Frames) == 0 {
			th.Status = TDone
			return
		}
		th.top().Unwinding = true
	}
}

func zeroResults(fn *ssa.Function) []Value {
	res := fn.Signature.Results()
	out := make([]Value, res.Len())
	for i := range out {
		out[i] = Zero(res.At(i).Type())
	}
	return out
}

// invokeDeferred runs a deferred call; returns true if a frame was pushed.
func (e *Engine) invokeDeferred(st *State, th *Thread, d DeferRec) bool {
	n := len(th.Frames)
	succ := e.invoke(st, th, d.Fn, d.Args, nil, nil, true)
	if succ != nil {
		panic(unsupported("deferred intrinsic forked/blocked: " + ValStr(d.Fn)))
	}
	if len(th.Frames) > n {
		th.top().IsDeferred = true
		return true
	}
	return false
}

// ---------------------------------------------------------------- calls

// invoke calls closure with args. Returns nil if execution continues in st
// (frame pushed or intrinsic completed in place), else successor states.
func (e *Engine) invoke(st *State, th *Thread, cl *Closure, args []Value, retTo ssa.Value, instr ssa.Instruction, deferred bool) []*State {
	if cl == nil {
		e.raise(st, th, "nil-func", "call of nil function", nil)
		return nil
	}
	if cl.Fn == nil {
		if cl.Builtin == "gosym:cancel" {
			e.cancelCtx(st, cl.Binds[0].(Ptr), e.ctxErrGlobal(st, "Canceled"))
			return nil
		}
		return e.callBuiltin(st, th, cl.Builtin, args, retTo, instr)
	}
	fn := cl.Fn
	name := fn.String()
	if h, ok := e.lookupIntrinsic(fn, name); ok {
		atomic.AddInt64(&e.Instrs, 1)
		e.mu.Lock()
		e.IntrHit[name]++
		e.mu.Unlock()
		c := &Call{E: e, St: st, Th: th, Fn: fn, Name: name, Args: args, RetTo: retTo, Fr: th.top(), Instr: instr}
		return h(c)
	}
	if fn.Name() == "init" && fn.Pkg != nil && fn.Synthetic != "" && (!e.execPkg(fn.Pkg.Pkg.Path()) || strings.Contains(fn.Pkg.Pkg.Path(), "/internal/frontend/gen/")) {
		return nil // initialiser of a package outside the execute set: not run
	}
	if len(fn.Blocks) == 0 {
		panic(unsupported("external function without model: " + name))
	}
	if fn.Pkg != nil && !e.execPkg(fn.Pkg.Pkg.Path()) && !e.allowExec(fn) {
		panic(unsupported("callee outside execute set without model: " + name))
	}
	if fn.Pkg == nil && !e.allowExec(fn) {
		// synthetic wrappers ($bound, $thunk, instantiations): allowed when origin is executable
		if !e.syntheticOK(fn) {
			panic(unsupported("synthetic callee without model: " + name))
		}
	}
	e.pushFrame(st, th, fn, args, cl.Binds, retTo)
	return nil
}

func (e *Engine) syntheticOK(fn *ssa.Function) bool {
	if o := fn.Origin(); o != nil && o.Pkg != nil {
		return e.execPkg(o.Pkg.Pkg.Path()) || e.allowExec(o)
	}
	if par := fn.Parent(); par != nil {
		for par.Parent() != nil {
			par = par.Parent()
		}
		if par.Pkg != nil {
			return e.execPkg(par.Pkg.Pkg.Path()) || e.allowExec(par)
		}
		return e.syntheticOK(par)
	}
	// bound method / thunk wrappers: body simply forwards; allow (the forwarded
	// callee is checked again)
	if fn.Synthetic != "" {
		return true
	}
	return false
}

var allowExecNames = map[string]bool{}

func (e *Engine) allowExec(fn *ssa.Function) bool {
	for fn.Parent() != nil {
		fn = fn.Parent()
	}
	return allowExecNames[fn.String()] || (fn.Pkg != nil && allowExecPkgs[fn.Pkg.Pkg.Path()])
}

var allowExecPkgs = map[string]bool{}

func (e *Engine) lookupIntrinsic(fn *ssa.Function, name string) (Intrinsic, bool) {
	if h, ok := e.Intr[name]; ok {
		return h, true
	}
	// harness runtime functions: body-less, named vf*
	if len(fn.Blocks) == 0 && strings.HasPrefix(fn.Name(), "vf") {
		if h, ok := e.Intr["harness."+fn.Name()]; ok {
			return h, true
		}
	}
	if o := fn.Origin(); o != nil {
		if h, ok := e.Intr[o.String()]; ok {
			return h, true
		}
	}
	return nil, false
}

// Return delivers v as the call result and lets execution continue.
func (c *Call) Return(v Value) []*State {
	if c.RetTo != nil && c.Fr != nil {
		if v == nil {
			v = Tuple{}
		}
		c.E.setLocal(c.Fr, c.RetTo, v)
	}
	return nil
}

func (c *Call) Sol() *Solver { return c.sol }

// Outcome of a forking intrinsic.
type Outcome struct {
	Cond *Term
	Ret  Value
	Eff  func(st *State)
}

// Outcomes forks the state over the feasible outcomes.
func (c *Call) Outcomes(sol *Solver, outs []Outcome) []*State {
	var feas []Outcome
	for _, o := range outs {
		if o.Cond == nil {
			o.Cond = True
		}
		if c.E.Feasible(sol, c.St, o.Cond) {
			feas = append(feas, o)
		}
	}
	if len(feas) == 0 {
		c.E.endPath(c.St, "infeasible")
		return []*State{}
	}
	var res []*State
	for i, o := range feas {
		st := c.St
		if i < len(feas)-1 {
			st = c.St.Clone()
			st.ID = int(atomic.AddInt32(&c.E.stateCtr, 1))
		}
		st.Assume(o.Cond)
		if o.Eff != nil {
			o.Eff(st)
		}
		if c.RetTo != nil {
			th := st.Threads[c.Th.ID]
			fr := th.top()
			v := o.Ret
			if v == nil {
				v = Tuple{}
			}
			c.E.setLocal(fr, c.RetTo, v)
		}
		res = append(res, st)
	}
	if len(res) == 1 && res[0] == c.St {
		return nil
	}
	return res
}

func (e *Engine) doReturn(st *State, th *Thread, results []Value) {
	fr := th.top()
	th.Frames = th.Frames[:len(th.Frames)-1]
	var rv Value
	switch len(results) {
	case 0:
		rv = Tuple{}
	case 1:
		rv = results[0]
	default:
		rv = Tuple(results)
	}
	if fr.OnRet != "" {
		st.Ghost[fr.OnRet] = rv
	}
	if len(th.Frames) == 0 {
		th.Result = rv
		th.Status = TDone
		return
	}
	caller := th.top()
	if fr.RetTo != nil {
		e.setLocal(caller, fr.RetTo, rv)
	}
}

// resolve the callee of a CallCommon into closure + args.
func (e *Engine) resolveCall(st *State, th *Thread, fr *Frame, cc *ssa.CallCommon) (*Closure, []Value, bool) {
	var args []Value
	if cc.IsInvoke() {
		recv := e.eval(st, fr, cc.Value)
		iv, ok := recv.(Iface)
		if !ok {
			panic(fmt.Sprintf("invoke on non-interface %T", recv))
		}
		if iv.T == nil {
			e.raise(st, th, "nil-deref", "method call on nil interface: "+cc.Method.Name(), nil)
			return nil, nil, false
		}
		fn := e.Prog.LookupMethod(iv.T, cc.Method.Pkg(), cc.Method.Name())
		if fn == nil {
			panic(unsupported(fmt.Sprintf("method %s not found on %s", cc.Method.Name(), iv.T)))
		}
		args = append(args, iv.V)
		for _, a := range cc.Args {
			args = append(args, e.eval(st, fr, a))
		}
		return &Closure{Fn: fn}, args, true
	}
	fv := e.eval(st, fr, cc.Value)
	cl, ok := fv.(*Closure)
	if !ok {
		panic(fmt.Sprintf("call of non-function %T", fv))
	}
	for _, a := range cc.Args {
		args = append(args, e.eval(st, fr, a))
	}
	return cl, args, true
}

// ---------------------------------------------------------------- step

// step executes one instruction of the current thread.
// Returns (nil,true) to continue with st, or (successors,false).
func (e *Engine) step(st *State, sol *Solver) ([]*State, bool) {
	if st.Cur >= len(st.Threads) || st.cur().Status != TRunnable {
		return e.schedule(st, sol)
	}
	th := st.cur()
	fr := th.top()
	if fr == nil {
		th.Status = TDone
		return e.schedule(st, sol)
	}
	if fr.Unwinding {
		e.unwind(st, th)
		if th.Status == TDone {
			return e.threadEnded(st, th, sol)
		}
		return nil, true
	}
	if fr.IP >= len(fr.Block.Instrs) {
		panic(fmt.Sprintf("fell off block in %s", fr.Info.Fn))
	}
	in := fr.Block.Instrs[fr.IP]
	st.Steps++
	atomic.AddInt64(&e.Instrs, 1)
	if e.Cfg.TraceInstr {
		fmt.Printf("[s%d t%d] %s: %s\n", st.ID, th.ID, fr.Info.Fn.Name(), in)
	}
	switch x := in.(type) {
	case *ssa.Jump:
		return e.jump(st, th, fr, fr.Block.Succs[0])
	case *ssa.If:
		c := e.eval(st, fr, x.Cond).(*Term)
		t, f := e.branch(sol, st, c)
		if t != nil && f != nil {
			// t is st
			ft := t.cur().top()
			ff := f.cur().top()
			r1, _ := e.jump(t, t.cur(), ft, ft.Block.Succs[0])
			r2, _ := e.jump(f, f.cur(), ff, ff.Block.Succs[1])
			var out []*State
			if r1 == nil {
				out = append(out, t)
			} else {
				out = append(out, r1...)
			}
			if r2 == nil {
				out = append(out, f)
			} else {
				out = append(out, r2...)
			}
			return out, false
		}
		if t != nil {
			return e.jump(st, th, fr, fr.Block.Succs[0])
		}
		return e.jump(st, th, fr, fr.Block.Succs[1])
	case *ssa.Return:
		if len(fr.Defers) > 0 && !fr.InDefers {
			// SSA always emits RunDefers before Return when defers exist
		}
		res := make([]Value, len(x.Results))
		for i, r := range x.Results {
			res[i] = e.eval(st, fr, r)
		}
		e.doReturn(st, th, res)
		if th.Status == TDone {
			return e.threadEnded(st, th, sol)
		}
		return nil, true
	case *ssa.RunDefers:
		if len(fr.Defers) == 0 {
			fr.IP++
			return nil, true
		}
		d := fr.Defers[len(fr.Defers)-1]
		fr.Defers = fr.Defers[:len(fr.Defers)-1]
		// IP stays on RunDefers
		succ := e.invoke(st, th, d.Fn, d.Args, nil, in, true)
		if succ != nil {
			return succ, false
		}
		return nil, true
	case *ssa.Panic:
		v := e.eval(st, fr, x.X)
		e.raise(st, th, "explicit", "panic: "+e.describePanicVal(st, v), v)
		return nil, true
	case *ssa.Go:
		cl, args, ok := e.resolveCall(st, th, fr, &x.Call)
		if !ok {
			return nil, true
		}
		fr.IP++
		return e.spawn(st, th, cl, args, sol)
	case *ssa.Defer:
		cl, args, ok := e.resolveCall(st, th, fr, &x.Call)
		if !ok {
			return nil, true
		}
		fr.Defers = append(fr.Defers, DeferRec{Fn: cl, Args: args})
		fr.IP++
		return nil, true
	case *ssa.Call:
		cl, args, ok := e.resolveCall(st, th, fr, &x.Call)
		if !ok {
			return nil, true
		}
		fr.IP++
		succ := e.invokeSol(st, th, cl, args, x, x, sol)
		if succ != nil {
			return succ, false
		}
		return nil, true
	case *ssa.Store:
		p := e.eval(st, fr, x.Addr).(Ptr)
		if p.IsNil() {
			e.raise(st, th, "nil-deref", "store through nil pointer", nil)
			return nil, true
		}
		st.Store(p, e.eval(st, fr, x.Val))
		fr.IP++
		return nil, true
	case *ssa.MapUpdate:
		m := e.eval(st, fr, x.Map).(MapRef)
		if m.Obj == 0 {
			e.raise(st, th, "nil-map", "assignment to entry in nil map", nil)
			return nil, true
		}
		k := e.eval(st, fr, x.Key)
		v := e.eval(st, fr, x.Value)
		succ := e.mapUpdate(st, sol, m, k, v, func(s *State) { s.Threads[th.ID].top().IP++ })
		if succ != nil {
			return succ, false
		}
		return nil, true
	case *ssa.Send:
		return e.chanSend(st, th, fr, x, sol)
	case *ssa.DebugRef:
		fr.IP++
		return nil, true
	case ssa.Value:
		succ, ok := e.evalInstr(st, th, fr, x, sol)
		if !ok {
			return succ, false
		}
		return nil, true
	}
	panic(unsupported(fmt.Sprintf("instruction %T", in)))
}

func (e *Engine) invokeSol(st *State, th *Thread, cl *Closure, args []Value, retTo ssa.Value, instr ssa.Instruction, sol *Solver) []*State {
	// stash solver for intrinsics through a per-thread field
	curSol.Store(th, sol)
	defer curSol.Delete(th)
	return e.invoke(st, th, cl, args, retTo, instr, false)
}

var curSol sync.Map

func (c *Call) Solver() *Solver {
	if v, ok := curSol.Load(c.Th); ok {
		return v.(*Solver)
	}
	// fall back: temporary solver from pool (returned by caller)
	return nil
}

func (e *Engine) describePanicVal(st *State, v Value) string {
	if iv, ok := v.(Iface); ok {
		if iv.T == nil {
			return "nil"
		}
		if t, ok := iv.V.(*Term); ok {
			return t.SMT()
		}
		if p, ok := iv.V.(Ptr); ok && !p.IsNil() {
			if s, ok := st.Load(p).(*Struct); ok && len(s.F) > 0 {
				return iv.T.String() + ValStr(s.F[0])
			}
		}
		return iv.T.String()
	}
	return ValStr(v)
}

func (e *Engine) jump(st *State, th *Thread, fr *Frame, to *ssa.BasicBlock) ([]*State, bool) {
	from := fr.Block
	// loop bound: count visits of target per frame
	if to.Index <= from.Index {
		if fr.Visits == nil {
			fr.Visits = map[int]int{}
		}
		fr.Visits[to.Index]++
		if fr.Visits[to.Index] > e.Cfg.Unwind {
			if !e.Cfg.UnwindCut {
				e.recordViolation(st, nil, &Violation{Kind: "unwind", Label: "unwinding bound exceeded", Pos: posStr(e.Fset, firstPos(to)), Fn: fr.Info.Fn.String()})
			}
			e.endPath(st, "unwind")
			return []*State{}, false
		}
	}
	// evaluate phis simultaneously
	pi := -1
	for i, p := range to.Preds {
		if p == from {
			pi = i
			break
		}
	}
	n := 0
	var vals []Value
	for _, in := range to.Instrs {
		phi, ok := in.(*ssa.Phi)
		if !ok {
			break
		}
		vals = append(vals, e.eval(st, fr, phi.Edges[pi]))
		n++
	}
	for i := 0; i < n; i++ {
		e.setLocal(fr, to.Instrs[i].(*ssa.Phi), vals[i])
	}
	fr.Prev = from
	fr.Block = to
	fr.IP = n
	return nil, true
}

func firstPos(b *ssa.BasicBlock) token.Pos {
	for _, in := range b.Instrs {
		if in.Pos().IsValid() {
			return in.Pos()
		}
	}
	return token.NoPos
}

// ---------------------------------------------------------------- violations

func (e *Engine) recordViolation(st *State, sol *Solver, v *Violation) {
	if len(st.Classes) > 0 && v.Class == "" {
		v.Class = strings.Join(st.Classes, "+")
	}
	key := v.Kind + "|" + v.Label + "|" + v.Fn + "|" + v.Class + "|" + st.Variant
	e.mu.Lock()
	if e.vioSeen[key] {
		e.mu.Unlock()
		return
	}
	e.vioSeen[key] = true
	e.mu.Unlock()
	for _, ev := range st.Events {
		v.Events = append(v.Events, eventStr(ev))
	}
	v.Path = st.ID
	v.Delays = st.Delays
	v.Labels = append([]string(nil), st.Labels...)
	e.mu.Lock()
	e.Violations = append(e.Violations, v)
	e.mu.Unlock()
	if e.Cfg.StopAtFirst {
		e.abort("violation found (stop-at-first)")
	}
}

func eventStr(ev Event) string {
	var parts []string
	for _, a := range ev.Args {
		parts = append(parts, ValStr(a))
	}
	return fmt.Sprintf("t%d:%s(%s)", ev.Thr, ev.Kind, strings.Join(parts, ","))
}

// Model extracts values of all nondets under pc ∧ extra.
func (e *Engine) Model(sol *Solver, st *State, extra ...*Term) ([]NondetVal, bool) {
	var want []*Term
	for _, n := range st.Nondets {
		if n.Term != nil && !n.Term.Const {
			want = append(want, n.Term)
		}
	}
	as := append(append([]*Term{}, st.PC...), extra...)
	r, vals := sol.CheckA(as, want, true)
	if r == Unknown && e.Pool2 != nil {
		s2 := e.Pool2.Get()
		r, vals = s2.CheckA(as, want, true)
		e.Pool2.Put(s2)
	}
	if r == Unknown {
		for _, sp := range e.SlowPools {
			s3 := sp.Get()
			r, vals = s3.CheckA(as, want, true)
			sp.Put(s3)
			if r != Unknown {
				break
			}
		}
	}
	if r != Sat {
		if os.Getenv("GOSYM_DEBUG") != "" {
			fmt.Fprintf(os.Stderr, "model extraction failed: result=%v (0=sat 1=unsat 2=unknown) at %s\n", r, e.curPos(st))
		}
		return nil, false
	}
	var out []NondetVal
	vi := 0
	for _, n := range st.Nondets {
		nv := NondetVal{Src: n.Src, Tag: n.Tag, Kind: n.Kind}
		if n.Term == nil {
			nv.Value = fmt.Sprint(n.Conc)
		} else if n.Term.Const {
			nv.Value = constStr(n.Term)
		} else if vi < len(vals) {
			nv.Value = modelValStr(n.Term, vals[vi])
			vi++
		}
		out = append(out, nv)
	}
	return out, true
}

func constStr(t *Term) string {
	switch t.Kind {
	case SBool:
		return fmt.Sprint(t.B)
	case SBV:
		return fmt.Sprint(t.Signed())
	case SString:
		return t.S
	}
	return t.SMT()
}

func modelValStr(t *Term, raw string) string {
	switch t.Kind {
	case SBool:
		return strings.TrimSpace(raw)
	case SBV:
		if u, ok := ParseBV(raw); ok {
			return fmt.Sprint(BVC(u, t.W).Signed())
		}
	case SString:
		if s, ok := ParseStr(raw); ok {
			return s
		}
	}
	return raw
}

// sorted keys helper
func sortedKeys[V any](m map[string]V) []string {
	ks := make([]string, 0, len(m))
	for k := range m {
		ks = append(ks, k)
	}
	sort.Strings(ks)
	return ks
}
