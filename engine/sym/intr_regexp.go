package sym

import (
	"fmt"
	"go/types"
	"regexp"
	"sort"
	"regexp/syntax"
	"strings"
)

// regexp model (DESIGN.md 3.1). A compiled pattern is a heap object
// Opaque{Kind:"regexp"}; constant patterns are parsed with Go's own
// regexp/syntax and translated to an SMT RegLan over the ASCII alphabet.

type reInfo struct {
	Pat    string // constant pattern ("" if unknown)
	Known  bool
	Re     string // SMT RegLan of the pattern body (no anchors)
	AncL   bool   // ^ / \A at the start
	AncR   bool   // $ / \z at the end
	NSub   int
	Sym    *Term // symbolic pattern (unknown)
	GoRe   *regexp.Regexp
	Simple bool
	cells  []reCell // partition of the alphabet induced by the pattern (exact mode)
}

func asciiLit(r rune) string { return smtStrLit(string(rune(r))) }

func reClassRanges(rs []rune) string {
	var alts []string
	for i := 0; i+1 < len(rs); i += 2 {
		lo, hi := rs[i], rs[i+1]
		if lo > 127 {
			continue
		}
		if hi > 127 {
			hi = 127
		}
		if lo == hi {
			alts = append(alts, "(str.to_re "+asciiLit(lo)+")")
		} else {
			alts = append(alts, "(re.range "+asciiLit(lo)+" "+asciiLit(hi)+")")
		}
	}
	switch len(alts) {
	case 0:
		return "re.none"
	case 1:
		return alts[0]
	}
	return "(re.union " + strings.Join(alts, " ") + ")"
}

func reToSMT(re *syntax.Regexp) (string, error) {
	switch re.Op {
	case syntax.OpEmptyMatch:
		return `(str.to_re "")`, nil
	case syntax.OpLiteral:
		if re.Flags&syntax.FoldCase != 0 {
			var parts []string
			for _, r := range re.Rune {
				lo, up := strings.ToLower(string(r)), strings.ToUpper(string(r))
				if lo == up {
					parts = append(parts, "(str.to_re "+smtStrLit(lo)+")")
				} else {
					parts = append(parts, "(re.union (str.to_re "+smtStrLit(lo)+") (str.to_re "+smtStrLit(up)+"))")
				}
			}
			if len(parts) == 1 {
				return parts[0], nil
			}
			return "(re.++ " + strings.Join(parts, " ") + ")", nil
		}
		for _, r := range re.Rune {
			if r > 127 {
				return "", fmt.Errorf("non-ASCII literal in pattern")
			}
		}
		return "(str.to_re " + smtStrLit(string(re.Rune)) + ")", nil
	case syntax.OpCharClass:
		return reClassRanges(re.Rune), nil
	case syntax.OpAnyCharNotNL:
		return reClassRanges([]rune{0, 9, 11, 127}), nil
	case syntax.OpAnyChar:
		return reClassRanges([]rune{0, 127}), nil
	case syntax.OpCapture:
		return reToSMT(re.Sub[0])
	case syntax.OpStar, syntax.OpPlus, syntax.OpQuest:
		s, err := reToSMT(re.Sub[0])
		if err != nil {
			return "", err
		}
		op := map[syntax.Op]string{syntax.OpStar: "re.*", syntax.OpPlus: "re.+", syntax.OpQuest: "re.opt"}[re.Op]
		return "(" + op + " " + s + ")", nil
	case syntax.OpRepeat:
		s, err := reToSMT(re.Sub[0])
		if err != nil {
			return "", err
		}
		if re.Max < 0 {
			if re.Min == 0 {
				return "(re.* " + s + ")", nil
			}
			return fmt.Sprintf("(re.++ ((_ re.loop %d %d) %s) (re.* %s))", re.Min, re.Min, s, s), nil
		}
		return fmt.Sprintf("((_ re.loop %d %d) %s)", re.Min, re.Max, s), nil
	case syntax.OpConcat, syntax.OpAlternate:
		var parts []string
		for _, sub := range re.Sub {
			s, err := reToSMT(sub)
			if err != nil {
				return "", err
			}
			parts = append(parts, s)
		}
		if len(parts) == 1 {
			return parts[0], nil
		}
		op := "re.++"
		if re.Op == syntax.OpAlternate {
			op = "re.union"
		}
		return "(" + op + " " + strings.Join(parts, " ") + ")", nil
	}
	return "", fmt.Errorf("unsupported regexp operator %v", re.Op)
}

func compileRe(pat string) (*reInfo, error) {
	gore, err := regexp.Compile(pat)
	if err != nil {
		return nil, err
	}
	ri := &reInfo{Pat: pat, Known: true, NSub: gore.NumSubexp(), GoRe: gore}
	ri.cells, _ = reCells(pat)
	re, err := syntax.Parse(pat, syntax.Perl)
	if err != nil {
		return nil, err
	}
	re = re.Simplify()
	// strip anchors at the ends of a top-level concatenation
	subs := []*syntax.Regexp{re}
	if re.Op == syntax.OpConcat {
		subs = append([]*syntax.Regexp(nil), re.Sub...)
	}
	if len(subs) > 0 && (subs[0].Op == syntax.OpBeginText || subs[0].Op == syntax.OpBeginLine) {
		ri.AncL = true
		subs = subs[1:]
	}
	if n := len(subs); n > 0 && (subs[n-1].Op == syntax.OpEndText || subs[n-1].Op == syntax.OpEndLine) {
		ri.AncR = true
		subs = subs[:n-1]
	}
	var parts []string
	for _, s := range subs {
		t, err := reToSMT(s)
		if err != nil {
			ri.Re = ""
			return ri, nil // compiled, but membership not expressible: treated as unknown
		}
		parts = append(parts, t)
	}
	switch len(parts) {
	case 0:
		ri.Re = `(str.to_re "")`
	case 1:
		ri.Re = parts[0]
	default:
		ri.Re = "(re.++ " + strings.Join(parts, " ") + ")"
	}
	return ri, nil
}

// searchRe is the language of strings that CONTAIN a match.
func (ri *reInfo) searchRe() string {
	l, r := "re.all ", " re.all"
	if ri.AncL {
		l = ""
	}
	if ri.AncR {
		r = ""
	}
	if l == "" && r == "" {
		return ri.Re
	}
	return "(re.++ " + l + ri.Re + r + ")"
}

func (e *Engine) newRegexp(st *State, ri *reInfo) Value {
	id := st.Alloc(Opaque{Kind: "regexp", Data: ri})
	return Ptr{Obj: id}
}

func reOf(c *Call, v Value) *reInfo {
	p, ok := v.(Ptr)
	if !ok || p.IsNil() {
		return nil
	}
	o, ok := c.St.Heap[p.Obj].(Opaque)
	if !ok || o.Kind != "regexp" {
		panic(unsupported("regexp method on a non-model *Regexp"))
	}
	return o.Data.(*reInfo)
}

// matches(s): Bool term "s contains a match of the pattern"
func (e *Engine) reMatches(c *Call, ri *reInfo, s *Term) *Term {
	if ri.Known && ri.Re != "" {
		if s.Const {
			return BoolC(ri.GoRe.MatchString(s.S))
		}
		return StrInRe(s, Raw(SRegLan, 0, ri.searchRe()))
	}
	b := FreshVar("re.match", SBool, 0)
	c.St.Nondets = append(c.St.Nondets, NondetRec{Tag: "re.match", Kind: "bool", Term: b})
	return b
}

const reMaxMatches = 2

func registerRegexp(e *Engine) {
	e.Intr["regexp.MustCompile"] = func(c *Call) []*State {
		p := c.argTerm(0)
		if !p.Const {
			panic(unsupported("regexp.MustCompile with symbolic pattern"))
		}
		ri, err := compileRe(p.S)
		if err != nil {
			return c.Panic("explicit", "regexp.MustCompile: "+err.Error())
		}
		return c.Return(e.newRegexp(c.St, ri))
	}
	e.Intr["regexp.Compile"] = func(c *Call) []*State {
		p := c.argTerm(0)
		if p.Const {
			ri, err := compileRe(p.S)
			if err != nil {
				return c.Return(Tuple{Ptr{}, e.newErrorString(c.St, StrC("error parsing regexp: "+err.Error()))})
			}
			return c.Return(Tuple{e.newRegexp(c.St, ri), Iface{}})
		}
		// symbolic pattern: validity is an uninterpreted predicate of the pattern
		DeclareFun("re_valid", "(declare-fun |re_valid| (String) Bool)")
		valid := App("re_valid", SBool, 0, p)
		// witnesses so that models can be replayed: "[" is invalid, "" and plain letters are valid
		c.St.Assume(Not(App("re_valid", SBool, 0, StrC("["))))
		c.St.Assume(App("re_valid", SBool, 0, StrC("")))
		c.St.Assume(Implies(StrInRe(p, Raw(SRegLan, 0, `(re.* (re.union (re.range "a" "z") (re.range "A" "Z") (re.range "0" "9") (str.to_re " ")))`)), valid))
		c.St.Assume(Implies(StrInRe(p, Raw(SRegLan, 0, `(re.++ (re.* (re.union (re.range "a" "z") (re.range "0" "9"))) (str.to_re "["))`)), Not(valid)))
		errv := e.newErrorString(c.St, StrC("error parsing regexp"))
		return c.outcomesNoRet(c.sol2(), []Outcome{
			{Cond: valid, Eff: func(s *State) {
				rv := e.newRegexp(s, &reInfo{Sym: p})
				e.setLocal(s.Threads[c.Th.ID].top(), c.RetTo, Tuple{rv, Iface{}})
			}},
			// the invalid patterns: "[" as a representative that is invalid natively too (so that a
			// counterexample through this branch replays), and all the others
			{Cond: And(Not(valid), Eq(p, StrC("["))), Eff: func(s *State) {
				s.Variant += "re-invalid=[;"
				e.setLocal(s.Threads[c.Th.ID].top(), c.RetTo, Tuple{Ptr{}, errv})
			}},
			{Cond: And(Not(valid), Not(Eq(p, StrC("[")))), Eff: func(s *State) {
				e.setLocal(s.Threads[c.Th.ID].top(), c.RetTo, Tuple{Ptr{}, errv})
			}},
		})
	}
	e.Intr["(*regexp.Regexp).MatchString"] = func(c *Call) []*State {
		ri := reOf(c, c.Args[0])
		if ri == nil {
			return c.Panic("nil-deref", "MatchString on nil *Regexp")
		}
		if rep, succ, forked, ok := e.reExactRep(c, ri, c.argTerm(1)); ok {
			if forked {
				return succ
			}
			return c.Return(BoolC(ri.GoRe.MatchString(rep)))
		}
		return c.Return(e.reMatches(c, ri, c.argTerm(1)))
	}
	e.Intr["(*regexp.Regexp).String"] = func(c *Call) []*State {
		ri := reOf(c, c.Args[0])
		if ri.Known {
			return c.Return(StrC(ri.Pat))
		}
		return c.Return(ri.Sym)
	}
	// FindAllString(s, n): nil iff no match; otherwise 1..reMaxMatches matches, each a
	// substring of s in the pattern's language (over-approximation of which ones).
	e.Intr["(*regexp.Regexp).FindAllString"] = func(c *Call) []*State {
		ri := reOf(c, c.Args[0])
		s := c.argTerm(1)
		if s.Const && ri.Known {
			ms := ri.GoRe.FindAllString(s.S, int(c.argTerm(2).Signed()))
			if ms == nil {
				return c.Return(Slice{})
			}
			vals := make([]Value, len(ms))
			for i, m := range ms {
				vals[i] = StrC(m)
			}
			return c.Return(e.newSlice(c.St, vals))
		}
		if rep, succ, forked, ok := e.reExactRep(c, ri, s); ok {
			if forked {
				return succ
			}
			idx := ri.GoRe.FindAllStringIndex(rep, int(c.argTerm(2).Signed()))
			if idx == nil {
				return c.Return(Slice{})
			}
			vals := make([]Value, len(idx))
			for i, m := range idx {
				vals[i] = reSub(s, m[0], m[1])
			}
			return c.Return(e.newSlice(c.St, vals))
		}
		m := e.reMatches(c, ri, s)
		outs := []Outcome{{Cond: Not(m), Eff: func(st *State) {
			e.setLocal(st.Threads[c.Th.ID].top(), c.RetTo, Slice{})
		}}}
		for k := 1; k <= reMaxMatches; k++ {
			k := k
			ms := make([]*Term, k)
			conds := []*Term{m}
			for i := range ms {
				ms[i] = FreshVar(fmt.Sprintf("re.m%d", i), SString, 0)
				conds = append(conds, StrContains(s, ms[i]))
				if ri.Known && ri.Re != "" {
					conds = append(conds, StrInRe(ms[i], Raw(SRegLan, 0, ri.Re)))
				}
			}
			outs = append(outs, Outcome{Cond: And(conds...), Eff: func(st *State) {
				vals := make([]Value, k)
				for i := range ms {
					vals[i] = ms[i]
				}
				e.setLocal(st.Threads[c.Th.ID].top(), c.RetTo, e.newSlice(st, vals))
			}})
		}
		return c.outcomesNoRet(c.sol2(), outs)
	}
	// FindAllStringSubmatch: nil iff no match; otherwise 1..reMaxMatches matches, each a
	// slice of NumSubexp+1 strings that are substrings of s (which ones: over-approximated).
	e.Intr["(*regexp.Regexp).FindAllStringSubmatch"] = func(c *Call) []*State {
		ri := reOf(c, c.Args[0])
		s := c.argTerm(1)
		if !ri.Known {
			panic(unsupported("FindAllStringSubmatch with unknown pattern"))
		}
		if s.Const {
			ms := ri.GoRe.FindAllStringSubmatch(s.S, int(c.argTerm(2).Signed()))
			if ms == nil {
				return c.Return(Slice{})
			}
			outer := make([]Value, len(ms))
			for i, m := range ms {
				inner := make([]Value, len(m))
				for j, x := range m {
					inner[j] = StrC(x)
				}
				outer[i] = e.newSlice(c.St, inner)
			}
			return c.Return(e.newSlice(c.St, outer))
		}
		if rep, succ, forked, ok := e.reExactRep(c, ri, s); ok {
			if forked {
				return succ
			}
			idx := ri.GoRe.FindAllStringSubmatchIndex(rep, int(c.argTerm(2).Signed()))
			if idx == nil {
				return c.Return(Slice{})
			}
			outer := make([]Value, len(idx))
			for i, m := range idx {
				inner := make([]Value, len(m)/2)
				for j := range inner {
					inner[j] = reSub(s, m[2*j], m[2*j+1])
				}
				outer[i] = e.newSlice(c.St, inner)
			}
			return c.Return(e.newSlice(c.St, outer))
		}
		m := e.reMatches(c, ri, s)
		outs := []Outcome{{Cond: Not(m), Eff: func(st *State) {
			e.setLocal(st.Threads[c.Th.ID].top(), c.RetTo, Slice{})
		}}}
		for k := 1; k <= reMaxMatches; k++ {
			k := k
			grid := make([][]*Term, k)
			conds := []*Term{m}
			for i := range grid {
				grid[i] = make([]*Term, ri.NSub+1)
				for j := range grid[i] {
					grid[i][j] = FreshVar(fmt.Sprintf("re.sm%d_%d", i, j), SString, 0)
					if j == 0 {
						conds = append(conds, StrContains(s, grid[i][0]))
						if ri.Re != "" {
							conds = append(conds, StrInRe(grid[i][0], Raw(SRegLan, 0, ri.Re)))
						}
					} else {
						conds = append(conds, StrContains(grid[i][0], grid[i][j]))
					}
				}
			}
			outs = append(outs, Outcome{Cond: And(conds...), Eff: func(st *State) {
				outer := make([]Value, k)
				for i := range grid {
					inner := make([]Value, len(grid[i]))
					for j := range grid[i] {
						inner[j] = grid[i][j]
					}
					outer[i] = e.newSlice(st, inner)
				}
				e.setLocal(st.Threads[c.Th.ID].top(), c.RetTo, e.newSlice(st, outer))
			}})
		}
		return c.outcomesNoRet(c.sol2(), outs)
	}
	// ReplaceAllString(src, repl): identity when nothing matches; otherwise a fresh string
	// (over-approximation) that is shorter than src when repl is "".
	e.Intr["(*regexp.Regexp).ReplaceAllString"] = func(c *Call) []*State {
		ri := reOf(c, c.Args[0])
		src, repl := c.argTerm(1), c.argTerm(2)
		if src.Const && repl.Const && ri.Known {
			return c.Return(StrC(ri.GoRe.ReplaceAllString(src.S, repl.S)))
		}
		m := e.reMatches(c, ri, src)
		r := FreshVar("re.repl", SString, 0)
		cond := m
		if repl.Const && repl.S == "" {
			cond = And(m, intCmp("<", StrLenInt(r), StrLenInt(src)))
			if ri.Known && ri.Re != "" {
				cond = And(cond, Not(StrInRe(r, Raw(SRegLan, 0, ri.searchRe()))))
			}
		}
		return c.Outcomes(c.sol2(), []Outcome{{Cond: Not(m), Ret: src}, {Cond: cond, Ret: r}})
	}
	// ReplaceAllStringFunc(src, f): identity when nothing matches; otherwise f is called
	// once on a fresh match (its side effects happen) and the result is a fresh string.
	e.Intr["(*regexp.Regexp).ReplaceAllStringFunc"] = func(c *Call) []*State {
		ri := reOf(c, c.Args[0])
		src := c.argTerm(1)
		f := c.Args[2].(*Closure)
		gk := fmt.Sprintf("rasf:%d:%d", c.Th.ID, len(c.Th.Frames))
		if _, ok := c.St.Ghost[gk]; ok {
			delete(c.St.Ghost, gk)
			delete(c.St.Ghost, gk+":ret")
			return c.Return(FreshVar("re.replf", SString, 0))
		}
		m := e.reMatches(c, ri, src)
		mt := FreshVar("re.fm", SString, 0)
		cond := And(m, StrContains(src, mt))
		if ri.Known && ri.Re != "" {
			cond = And(cond, StrInRe(mt, Raw(SRegLan, 0, ri.Re)))
		}
		return c.outcomesNoRet(c.sol2(), []Outcome{
			{Cond: Not(m), Eff: func(st *State) {
				e.setLocal(st.Threads[c.Th.ID].top(), c.RetTo, src)
			}},
			{Cond: cond, Eff: func(st *State) {
				th := st.Threads[c.Th.ID]
				st.Ghost[gk] = True
				th.top().IP-- // re-enter this call after f returns
				n := len(th.Frames)
				if succ := e.invoke(st, th, f, []Value{mt}, nil, c.Instr, false); succ != nil {
					panic(unsupported("ReplaceAllStringFunc: callback is a forking intrinsic"))
				}
				if len(th.Frames) > n {
					th.top().OnRet = gk + ":ret"
				}
			}},
		})
	}

	// os/exec: commands are never run; starting one is a ghost "exec" event and the
	// result is an arbitrary (output, error).
	// exec.Command / CommandContext: a real exec.Cmd struct (Path, Args set; callers may fill
	// Env, Dir, Stdout, ... as ordinary field stores); the run methods are summarised below.
	newCmd := func(c *Call, name Value, args Value) []*State {
		ct := e.Prog.ImportedPackage("os/exec").Type("Cmd").Type()
		st := Zero(ct).(*Struct)
		us := ct.Underlying().(*types.Struct)
		for i := 0; i < us.NumFields(); i++ {
			switch us.Field(i).Name() {
			case "Path":
				st.F[i] = name
			case "Args":
				vals := []Value{name}
				if sl, ok := args.(Slice); ok {
					for j := 0; j < sl.Len; j++ {
						vals = append(vals, c.St.Load(Ptr{Obj: sl.Obj, Path: []int{sl.Off + j}}))
					}
				}
				st.F[i] = e.newSlice(c.St, vals)
			}
		}
		id := c.St.Alloc(st)
		return c.Return(Ptr{Obj: id})
	}
	e.Intr["os/exec.Command"] = func(c *Call) []*State { return newCmd(c, c.Args[0], c.Args[1]) }
	e.Intr["os/exec.CommandContext"] = func(c *Call) []*State { return newCmd(c, c.Args[1], c.Args[2]) }
	cmdName := func(c *Call) Value {
		p := c.Args[0].(Ptr)
		switch o := c.St.Heap[p.Obj].(type) {
		case Opaque:
			return o.Data
		case *Struct:
			return o.F[0] // Path
		}
		return StrC("?")
	}
	execRun := func(withOut bool) Intrinsic {
		return func(c *Call) []*State {
			name := cmdName(c)
			c.St.Events = append(c.St.Events, Event{Kind: "exec", Args: []Value{name}, Thr: c.Th.ID})
			ok := FreshVar("exec.ok", SBool, 0)
			c.St.Nondets = append(c.St.Nondets, NondetRec{Tag: "exec.ok", Kind: "bool", Term: ok})
			errv := e.newErrorString(c.St, StrC("exec: command failed"))
			if !withOut {
				return c.Outcomes(c.sol2(), []Outcome{{Cond: ok, Ret: Iface{}}, {Cond: Not(ok), Ret: errv}})
			}
			out := FreshVar("exec.out", SString, 0)
			c.St.Assume(intCmp("<=", StrLenInt(out), IntC(ExecOutMax)))
			c.St.Nondets = append(c.St.Nondets, NondetRec{Tag: "exec.out", Kind: "string", Term: out})
			return c.Outcomes(c.sol2(), []Outcome{{Cond: ok, Ret: Tuple{Bytes{S: out}, Iface{}}}, {Cond: Not(ok), Ret: Tuple{Slice{}, errv}}})
		}
	}
	e.Intr["(*os/exec.Cmd).Output"] = execRun(true)
	e.Intr["(*os/exec.Cmd).CombinedOutput"] = execRun(true)
	e.Intr["(*os/exec.Cmd).Run"] = execRun(false)
	e.Intr["(*os/exec.Cmd).Start"] = execRun(false)
}

// Linux signal table of golang.org/x/sys/unix (amd64/arm64): SignalNum is exact.
var linuxSignals = map[string]int{"SIGABRT": 6, "SIGALRM": 14, "SIGBUS": 7, "SIGCHLD": 17, "SIGCLD": 17, "SIGCONT": 18, "SIGFPE": 8, "SIGHUP": 1,
	"SIGILL": 4, "SIGINT": 2, "SIGIO": 29, "SIGIOT": 6, "SIGKILL": 9, "SIGPIPE": 13, "SIGPOLL": 29, "SIGPROF": 27, "SIGPWR": 30, "SIGQUIT": 3,
	"SIGSEGV": 11, "SIGSTKFLT": 16, "SIGSTOP": 19, "SIGSYS": 31, "SIGTERM": 15, "SIGTRAP": 5, "SIGTSTP": 20, "SIGTTIN": 21, "SIGTTOU": 22,
	"SIGUNUSED": 31, "SIGURG": 23, "SIGUSR1": 10, "SIGUSR2": 12, "SIGVTALRM": 26, "SIGWINCH": 28, "SIGXCPU": 24, "SIGXFSZ": 25}

func registerMisc2(e *Engine) {
	e.Intr["golang.org/x/sys/unix.SignalNum"] = func(c *Call) []*State {
		s := c.argTerm(0)
		if s.Const {
			return c.Return(BVC(uint64(linuxSignals[s.S]), 64))
		}
		var names []string
		for k := range linuxSignals {
			names = append(names, k)
		}
		sort.Strings(names)
		res := BVC(0, 64)
		for _, k := range names {
			res = Ite(Eq(s, StrC(k)), BVC(uint64(linuxSignals[k]), 64), res)
		}
		return c.Return(res)
	}
}
