package sym

import (
	"net/textproto"
	"strings"
)

// invokeMethod pushes a frame (or runs an intrinsic) for recv.name(args...).
func (e *Engine) invokeMethod(c *Call, recv Iface, name string, args []Value) []*State {
	if recv.T == nil {
		return c.Panic("nil-deref", "method "+name+" on nil interface")
	}
	ms := e.Prog.MethodSets.MethodSet(recv.T)
	sel := ms.Lookup(nil, name)
	if sel == nil {
		// unexported methods need the package; search all
		for i := 0; i < ms.Len(); i++ {
			if ms.At(i).Obj().Name() == name {
				sel = ms.At(i)
			}
		}
	}
	if sel == nil {
		panic(unsupported("invokeMethod: no method " + name + " on " + recv.T.String()))
	}
	fn := e.Prog.MethodValue(sel)
	return e.invoke(c.St, c.Th, &Closure{Fn: fn}, append([]Value{recv.V}, args...), nil, c.Instr, false)
}

func (e *Engine) headerGet(st *State, h MapRef, key string) *Term {
	if h.Obj == 0 {
		return StrC("")
	}
	mo := st.Heap[h.Obj].(*MapObj)
	ck := textproto.CanonicalMIMEHeaderKey(key)
	for i, k := range mo.Keys {
		kt := k.(*Term)
		if !kt.Const {
			panic(unsupported("symbolic http header key"))
		}
		if kt.S == ck {
			vs := e.sliceElems(st, mo.Vals[i].(Slice))
			if len(vs) == 0 {
				return StrC("")
			}
			return vs[0].(*Term)
		}
	}
	return StrC("")
}

func b64AlphabetRe() string {
	return `(re.union (re.range "A" "Z") (re.range "a" "z") (re.range "0" "9") (str.to_re "+") (str.to_re "/") (str.to_re "="))`
}

func registerHTTP(e *Engine) {
	ident := func(c *Call) []*State { return c.Return(c.Args[0]) }
	e.Intr["github.com/go-chi/chi/v5/middleware.RequestID"] = ident
	e.Intr["github.com/go-chi/chi/v5/middleware.Logger"] = ident
	e.Intr["github.com/go-chi/chi/v5/middleware.Recoverer"] = ident
	allowExecNames["(net/http.HandlerFunc).ServeHTTP"] = true
	allowExecNames["net/http.StripPrefix"] = true
	allowExecNames["(*net/http.Request).WithContext"] = true
	allowExecNames["(*net/http.Request).Context"] = true

	e.Intr["(net/http.Header).Get"] = func(c *Call) []*State {
		return c.Return(c.E.headerGet(c.St, c.Args[0].(MapRef), c.constStr(1)))
	}
	hset := func(add bool) Intrinsic {
		return func(c *Call) []*State {
			m := c.Args[0].(MapRef)
			if m.Obj == 0 {
				return c.Panic("nil-map", "assignment to entry in nil map (http.Header)")
			}
			ck := StrC(textproto.CanonicalMIMEHeaderKey(c.constStr(1)))
			var cur []Value
			mo := c.St.Heap[m.Obj].(*MapObj)
			for i, k := range mo.Keys {
				if add && k.(*Term).Const && k.(*Term).S == ck.S {
					cur = c.E.sliceElems(c.St, mo.Vals[i].(Slice))
				}
			}
			ns := c.E.newSlice(c.St, append(append([]Value(nil), cur...), c.Args[2]))
			if succ := c.E.mapUpdate(c.St, c.sol2(), m, ck, ns, func(s *State) {}); succ != nil {
				return succ
			}
			return c.Return(nil)
		}
	}
	e.Intr["(net/http.Header).Add"] = hset(true)
	e.Intr["(net/http.Header).Set"] = hset(false)
	e.Intr["(net/http.Header).Del"] = func(c *Call) []*State {
		if succ := c.E.mapDelete(c.St, c.sol2(), c.Args[0].(MapRef), StrC(textproto.CanonicalMIMEHeaderKey(c.constStr(1))), func(s *State) {}); succ != nil {
			return succ
		}
		return c.Return(nil)
	}
	writeCode := func(code int, argIdx int) Intrinsic {
		return func(c *Call) []*State {
			w := c.Args[0].(Iface)
			cd := Value(BVC(uint64(code), 64))
			if argIdx >= 0 {
				cd = c.Args[argIdx]
			}
			return c.E.invokeMethod(c, w, "WriteHeader", []Value{cd})
		}
	}
	e.Intr["net/http.NotFound"] = writeCode(404, -1)
	e.Intr["net/http.Error"] = writeCode(0, 2)
	e.Intr["net/http.Redirect"] = writeCode(0, 3)

	// (*http.Request).BasicAuth: contract over the harness-declared decoding of the
	// credential part (see harness.vfSetBasicAuth).
	e.Intr["(*net/http.Request).BasicAuth"] = func(c *Call) []*State {
		r := c.St.Load(c.Args[0].(Ptr)).(*Struct)
		// Header is field "Header"
		hIdx := structFieldIndex(c.Fn.Signature.Recv().Type(), "Header")
		h := c.E.headerGet(c.St, r.F[hIdx].(MapRef), "Authorization")
		fail := Tuple{StrC(""), StrC(""), False}
		if h.Const && h.S == "" {
			return c.Return(fail)
		}
		dec, ok1 := c.St.Ghost["g:basicauth.decodable"].(*Term)
		cred, ok2 := c.St.Ghost["g:basicauth.cred"].(*Term)
		if !ok1 || !ok2 {
			panic(unsupported("(*http.Request).BasicAuth without harness vfSetBasicAuth"))
		}
		lenOK := intCmp("<=", IntC(6), StrLenInt(h))
		pre := StrSubstr(h, IntC(0), IntC(6))
		low, succ, ok := c.E.lowerASCII(c, pre)
		if !ok {
			return succ
		}
		schemeOK := Eq(low, StrC("basic "))
		u := FreshVar("basicauth.user", SString, 0)
		p := FreshVar("basicauth.pass", SString, 0)
		hasColon := StrContains(cred, StrC(":"))
		okc := And(lenOK, schemeOK, dec, hasColon)
		return c.Outcomes(c.sol2(), []Outcome{
			{Cond: And(okc, Eq(cred, StrConcat(u, StrC(":"), p)), Not(StrContains(u, StrC(":")))), Ret: Tuple{u, p, True}},
			{Cond: Not(okc), Ret: fail},
		})
	}
	e.Intr["crypto/subtle.ConstantTimeCompare"] = func(c *Call) []*State {
		a, b := c.E.bytesAsString(c.St, c.Args[0]), c.E.bytesAsString(c.St, c.Args[1])
		return c.Return(Ite(Eq(a, b), BVC(1, 64), BVC(0, 64)))
	}
	// harness side of the base64 contract
	e.Intr["harness.vfSetBasicAuth"] = func(c *Call) []*State {
		c.St.Ghost["g:basicauth.decodable"] = c.Args[0]
		c.St.Ghost["g:basicauth.cred"] = c.Args[1]
		return c.Return(nil)
	}
	e.Intr["harness.vfB64Enc"] = func(c *Call) []*State {
		x := c.argTerm(0)
		t := FreshVar("b64enc", SString, 0)
		c.St.Assume(StrInRe(t, Raw(SRegLan, 0, "(re.* "+b64AlphabetRe()+")")))
		// len(t) = 4*ceil(len(x)/3)
		c.St.Assume(Raw(SBool, 0, "(= (str.len "+t.SMT()+") (* 4 (div (+ (str.len "+x.SMT()+") 2) 3)))", t, x))
		return c.Return(t)
	}
	// vfNonB64(tag, maxLen): string containing at least one byte outside the base64 alphabet (and not CR/LF)
	e.Intr["harness.vfNonB64"] = func(c *Call) []*State {
		tag := c.constStr(0)
		v := FreshVar(tag, SString, 0)
		c.St.Nondets = append(c.St.Nondets, NondetRec{Src: "h", Tag: tag, Kind: "string", Term: v})
		c.St.Assume(intCmp("<=", StrLenInt(v), BVToInt(c.argTerm(1))))
		bad := "(re.diff re.allchar (re.union " + b64AlphabetRe() + " (str.to_re \"\\u{a}\") (str.to_re \"\\u{d}\")))"
		c.St.Assume(StrInRe(v, Raw(SRegLan, 0, "(re.++ re.all "+bad+" re.all)")))
		return c.Return(v)
	}
}

func (e *Engine) bytesAsString(st *State, v Value) *Term {
	switch x := v.(type) {
	case Bytes:
		return x.S
	case Slice:
		var parts []*Term
		for _, el := range e.sliceElems(st, x) {
			parts = append(parts, StrFromCode(BVToInt(BVResize(el.(*Term), 64, false))))
		}
		return StrConcat(parts...)
	}
	panic(unsupported("bytesAsString on non-bytes"))
}

func structFieldIndex(t interface{ String() string }, name string) int {
	return fieldIndexByName(t, name)
}

var _ = strings.Contains
