package sym

import (
	"fmt"
	"go/types"
	"strings"

	"golang.org/x/tools/go/ssa"
)

// Value is a symbolic run-time value. All Values are immutable.
//   *Term        bool / integers / strings
//   *Struct      struct value
//   *Array       array value (also the backing store of slices)
//   Ptr          pointer (concrete target)
//   Slice        slice header (concrete)
//   MapRef       map reference
//   ChanRef      channel reference
//   Iface        interface value
//   *Closure     function value
//   Tuple        multiple results
//   *Iter        range iterator
//   Float        float64 (concrete or opaque)
//   Opaque       host object handled only by intrinsics
type Value interface{}

type Struct struct{ F []Value }
type Array struct{ E []Value }

type Ptr struct {
	Obj  int   // 0 = nil
	Path []int // field / element indices
}

type Slice struct {
	Obj           int // backing *Array object; 0 = nil slice
	Off, Len, Cap int
}

// Bytes is a read-only []byte view of a string term (result of []byte(s)).
type Bytes struct {
	S   *Term
	Hex bool // S is the lower-case hex rendering of the raw bytes (hash digests)
}

type MapRef struct{ Obj int }
type ChanRef struct{ Obj int }

type Iface struct {
	T types.Type // nil => nil interface
	V Value
}

type Closure struct {
	Fn    *ssa.Function
	Binds []Value
	// builtin name if Fn==nil
	Builtin string
}

type Tuple []Value

type Iter struct {
	Keys, Vals []Value // map range
	Str        *Term   // string range (concrete length)
	StrLen     int
	Idx        int
}

type Float struct {
	Known bool
	V     float64
	Tag   string // opaque identity otherwise
	NaN   bool
	Inf   bool
}

// Opaque is an engine-level object (solver-free) used by models.
type Opaque struct {
	Kind string
	Data interface{}
}

// MapObj is the heap representation of a map.
type MapObj struct {
	Keys []Value
	Vals []Value
	KT   types.Type
	VT   types.Type
}

// ChanObj heap representation of a channel.
type ChanObj struct {
	Cap    int
	Buf    []Value
	Closed bool
	ET     types.Type
	// rendezvous for unbuffered: pending senders (thread ids + value)
	SendQ []ChanWaiter
}

type ChanWaiter struct {
	Thread int
	Val    Value
}

func NilPtr() Ptr       { return Ptr{} }
func (p Ptr) IsNil() bool { return p.Obj == 0 }

func (p Ptr) Sub(i int) Ptr {
	np := make([]int, len(p.Path)+1)
	copy(np, p.Path)
	np[len(p.Path)] = i
	return Ptr{p.Obj, np}
}

func ptrEq(a, b Ptr) bool {
	if a.Obj != b.Obj || len(a.Path) != len(b.Path) {
		return false
	}
	for i := range a.Path {
		if a.Path[i] != b.Path[i] {
			return false
		}
	}
	return true
}

// ---------------------------------------------------------------- types

func isStringType(t types.Type) bool {
	b, ok := t.Underlying().(*types.Basic)
	return ok && b.Info()&types.IsString != 0
}

func intWidth(t types.Type) (w int, signed bool, ok bool) {
	b, isB := t.Underlying().(*types.Basic)
	if !isB {
		return 0, false, false
	}
	switch b.Kind() {
	case types.Int, types.Int64, types.UntypedInt:
		return 64, true, true
	case types.Int8:
		return 8, true, true
	case types.Int16:
		return 16, true, true
	case types.Int32, types.UntypedRune:
		return 32, true, true
	case types.Uint, types.Uint64, types.Uintptr:
		return 64, false, true
	case types.Uint8:
		return 8, false, true
	case types.Uint16:
		return 16, false, true
	case types.Uint32:
		return 32, false, true
	}
	return 0, false, false
}

func isFloat(t types.Type) bool {
	b, ok := t.Underlying().(*types.Basic)
	return ok && b.Info()&types.IsFloat != 0
}

func isBool(t types.Type) bool {
	b, ok := t.Underlying().(*types.Basic)
	return ok && b.Info()&types.IsBoolean != 0
}

// Zero value of a type.
func Zero(t types.Type) Value {
	switch u := t.Underlying().(type) {
	case *types.Basic:
		switch {
		case u.Info()&types.IsBoolean != 0:
			return False
		case u.Info()&types.IsString != 0:
			return StrC("")
		case u.Info()&types.IsFloat != 0:
			return Float{Known: true}
		case u.Kind() == types.UnsafePointer:
			return Ptr{}
		case u.Kind() == types.UntypedNil:
			return Ptr{}
		}
		if w, _, ok := intWidth(t); ok {
			return BVC(0, w)
		}
		panic("zero: basic " + u.String())
	case *types.Struct:
		fs := make([]Value, u.NumFields())
		for i := range fs {
			fs[i] = Zero(u.Field(i).Type())
		}
		return &Struct{fs}
	case *types.Array:
		n := int(u.Len())
		es := make([]Value, n)
		if n > 0 {
			z := Zero(u.Elem())
			for i := range es {
				es[i] = z
			}
		}
		return &Array{es}
	case *types.Pointer:
		return Ptr{}
	case *types.Slice:
		return Slice{}
	case *types.Map:
		return MapRef{}
	case *types.Chan:
		return ChanRef{}
	case *types.Interface:
		return Iface{}
	case *types.Signature:
		return (*Closure)(nil)
	case *types.Tuple:
		tv := make(Tuple, u.Len())
		for i := range tv {
			tv[i] = Zero(u.At(i).Type())
		}
		return tv
	}
	panic(fmt.Sprintf("zero: unsupported type %s", t))
}

// ---------------------------------------------------------------- printing

func ValStr(v Value) string {
	switch x := v.(type) {
	case nil:
		return "<nil>"
	case *Term:
		return x.SMT()
	case *Struct:
		var parts []string
		for _, f := range x.F {
			parts = append(parts, ValStr(f))
		}
		return "{" + strings.Join(parts, ", ") + "}"
	case *Array:
		var parts []string
		for _, f := range x.E {
			parts = append(parts, ValStr(f))
		}
		return "[" + strings.Join(parts, ", ") + "]"
	case Ptr:
		if x.IsNil() {
			return "nilptr"
		}
		return fmt.Sprintf("&obj%d%v", x.Obj, x.Path)
	case Slice:
		return fmt.Sprintf("slice(obj%d,%d,%d,%d)", x.Obj, x.Off, x.Len, x.Cap)
	case MapRef:
		return fmt.Sprintf("map(obj%d)", x.Obj)
	case ChanRef:
		return fmt.Sprintf("chan(obj%d)", x.Obj)
	case Iface:
		if x.T == nil {
			return "nil-iface"
		}
		return fmt.Sprintf("iface(%s:%s)", x.T, ValStr(x.V))
	case *Closure:
		if x == nil {
			return "nilfunc"
		}
		if x.Fn != nil {
			return "func " + x.Fn.String()
		}
		return "builtin " + x.Builtin
	case Tuple:
		var parts []string
		for _, f := range x {
			parts = append(parts, ValStr(f))
		}
		return "(" + strings.Join(parts, ", ") + ")"
	case Float:
		if x.Known {
			return fmt.Sprintf("%g", x.V)
		}
		return "float:" + x.Tag
	case Opaque:
		return "opaque:" + x.Kind
	}
	return fmt.Sprintf("%T", v)
}

func fieldIndexByName(t interface{ String() string }, name string) int {
	tt, ok := t.(types.Type)
	if !ok {
		panic("fieldIndexByName: not a type")
	}
	if p, ok := tt.Underlying().(*types.Pointer); ok {
		tt = p.Elem()
	}
	st := tt.Underlying().(*types.Struct)
	for i := 0; i < st.NumFields(); i++ {
		if st.Field(i).Name() == name {
			return i
		}
	}
	panic("no field " + name + " in " + tt.String())
}

func typesPointer(t types.Type) types.Type { return types.NewPointer(t) }
