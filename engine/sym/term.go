package sym

import (
	"fmt"
	"math/bits"
	"sort"
	"strconv"
	"strings"
	"sync"
	"sync/atomic"
)

// Sort kinds of SMT terms.
type SortKind int

const (
	SBool SortKind = iota
	SBV
	SString
	SInt
	SRegLan
)

// Term is an immutable SMT term. Constants fold eagerly so that concrete
// program behaviour never reaches the solver.
type Term struct {
	Kind  SortKind
	W     int // bit width for SBV
	Op    string
	Args  []*Term
	Const bool
	B     bool   // SBool const
	U     uint64 // SBV const (masked to W), SInt const stored as int64 bits
	S     string // SString const, or variable name for Op=="var"
	IntF  *Term  // optional Int-sorted equivalent (valid: value is a small non-negative int)

	smt  atomic.Pointer[string]
	vars atomic.Pointer[[]string]
	id   uint64
}

var termCtr uint64

func newTerm(t *Term) *Term { t.id = atomic.AddUint64(&termCtr, 1); return t }

var (
	True  = newTerm(&Term{Kind: SBool, Const: true, B: true, Op: "true"})
	False = newTerm(&Term{Kind: SBool, Const: true, B: false, Op: "false"})
)

func BoolC(b bool) *Term {
	if b {
		return True
	}
	return False
}

func mask(w int) uint64 {
	if w >= 64 {
		return ^uint64(0)
	}
	return (uint64(1) << uint(w)) - 1
}

func BVC(v uint64, w int) *Term {
	return newTerm(&Term{Kind: SBV, W: w, Const: true, U: v & mask(w), Op: "bvc"})
}
func IntC(v int64) *Term { return newTerm(&Term{Kind: SInt, Const: true, U: uint64(v), Op: "intc"}) }
func StrC(s string) *Term {
	return newTerm(&Term{Kind: SString, Const: true, S: s, Op: "strc"})
}

// signed value of BV const
func (t *Term) Signed() int64 {
	if t.W >= 64 {
		return int64(t.U)
	}
	if t.U&(uint64(1)<<uint(t.W-1)) != 0 {
		return int64(t.U | ^mask(t.W))
	}
	return int64(t.U)
}

// ---------------------------------------------------------------- variables

type VarDecl struct {
	Name string
	Kind SortKind
	W    int
}

var (
	varMu    sync.Mutex
	varDecls = map[string]VarDecl{}
	varCtr   = map[string]int{}
	// uninterpreted functions: name -> full declaration text
	funDecls     = map[string]string{}
	funDeclOrder []string
)

func sortStr(k SortKind, w int) string {
	switch k {
	case SBool:
		return "Bool"
	case SBV:
		return fmt.Sprintf("(_ BitVec %d)", w)
	case SString:
		return "String"
	case SInt:
		return "Int"
	case SRegLan:
		return "RegLan"
	}
	return "?"
}

func sanitize(s string) string {
	var b strings.Builder
	for _, c := range s {
		if (c >= 'a' && c <= 'z') || (c >= 'A' && c <= 'Z') || (c >= '0' && c <= '9') || c == '_' || c == '.' {
			b.WriteRune(c)
		} else {
			b.WriteByte('_')
		}
	}
	return b.String()
}

// FreshVar creates a new uniquely named variable.
func FreshVar(tag string, k SortKind, w int) *Term {
	varMu.Lock()
	base := "v_" + sanitize(tag)
	n := varCtr[base]
	varCtr[base] = n + 1
	name := fmt.Sprintf("%s!%d", base, n)
	varDecls[name] = VarDecl{name, k, w}
	varMu.Unlock()
	return newTerm(&Term{Kind: k, W: w, Op: "var", S: name})
}

// NamedVar returns the variable with exactly this name (declared once).
func NamedVar(name string, k SortKind, w int) *Term {
	varMu.Lock()
	if _, ok := varDecls[name]; !ok {
		varDecls[name] = VarDecl{name, k, w}
	}
	varMu.Unlock()
	return newTerm(&Term{Kind: k, W: w, Op: "var", S: name})
}

func DeclareFun(name, decl string) {
	varMu.Lock()
	if _, ok := funDecls[name]; !ok {
		funDecls[name] = decl
		funDeclOrder = append(funDeclOrder, name)
	}
	varMu.Unlock()
}

func lookupDecl(name string) (VarDecl, bool) {
	varMu.Lock()
	d, ok := varDecls[name]
	varMu.Unlock()
	return d, ok
}

// UF application. argument/return sorts given by decl registered via DeclareFun.
func App(name string, k SortKind, w int, args ...*Term) *Term {
	return newTerm(&Term{Kind: k, W: w, Op: "app:" + name, Args: args})
}

// ---------------------------------------------------------------- printing

func smtStrLit(s string) string {
	var b strings.Builder
	b.WriteByte('"')
	for i := 0; i < len(s); i++ {
		c := s[i]
		switch {
		case c == '"':
			b.WriteString("\"\"")
		case c == '\\':
			b.WriteString("\\u{5c}")
		case c >= 0x20 && c < 0x7f:
			b.WriteByte(c)
		default:
			fmt.Fprintf(&b, "\\u{%x}", c)
		}
	}
	b.WriteByte('"')
	return b.String()
}

func quoteSym(name string) string {
	return "|" + name + "|"
}

func (t *Term) SMT() string {
	if p := t.smt.Load(); p != nil {
		return *p
	}
	var s string
	switch {
	case t.Const && t.Kind == SBool:
		if t.B {
			s = "true"
		} else {
			s = "false"
		}
	case t.Const && t.Kind == SBV:
		s = fmt.Sprintf("(_ bv%d %d)", t.U, t.W)
	case t.Const && t.Kind == SInt:
		v := int64(t.U)
		if v < 0 {
			s = fmt.Sprintf("(- %d)", -v)
		} else {
			s = strconv.FormatInt(v, 10)
		}
	case t.Const && t.Kind == SString:
		s = smtStrLit(t.S)
	case t.Op == "var":
		s = quoteSym(t.S)
	case t.Op == "raw":
		s = t.S
	case strings.HasPrefix(t.Op, "app:"):
		var b strings.Builder
		b.WriteString("(" + quoteSym(t.Op[4:]))
		for _, a := range t.Args {
			b.WriteByte(' ')
			b.WriteString(a.SMT())
		}
		b.WriteByte(')')
		s = b.String()
	default:
		var b strings.Builder
		b.WriteByte('(')
		b.WriteString(t.Op)
		for _, a := range t.Args {
			b.WriteByte(' ')
			b.WriteString(a.SMT())
		}
		b.WriteByte(')')
		s = b.String()
	}
	t.smt.Store(&s)
	return s
}

func (t *Term) String() string { return t.SMT() }

// Vars returns sorted free variable + UF names used by t.
func (t *Term) Vars() []string {
	if p := t.vars.Load(); p != nil {
		return *p
	}
	set := map[string]bool{}
	var walk func(x *Term)
	seen := map[*Term]bool{}
	walk = func(x *Term) {
		if seen[x] {
			return
		}
		seen[x] = true
		if x.Op == "var" {
			set[x.S] = true
		}
		if strings.HasPrefix(x.Op, "app:") {
			set["\x00"+x.Op[4:]] = true
		}
		if x.Op == "raw" {
			for _, a := range x.Args {
				walk(a)
			}
		}
		for _, a := range x.Args {
			walk(a)
		}
	}
	walk(t)
	out := make([]string, 0, len(set))
	for k := range set {
		out = append(out, k)
	}
	sort.Strings(out)
	t.vars.Store(&out)
	return out
}

// Raw builds a term from literal SMT text referencing args (for var tracking).
func Raw(k SortKind, w int, text string, deps ...*Term) *Term {
	return newTerm(&Term{Kind: k, W: w, Op: "raw", S: text, Args: deps})
}

// ---------------------------------------------------------------- boolean

func Not(a *Term) *Term {
	if a.Const {
		return BoolC(!a.B)
	}
	if a.Op == "not" {
		return a.Args[0]
	}
	return newTerm(&Term{Kind: SBool, Op: "not", Args: []*Term{a}})
}

func And(xs ...*Term) *Term {
	var out []*Term
	for _, x := range xs {
		if x.Const {
			if !x.B {
				return False
			}
			continue
		}
		if x.Op == "and" {
			out = append(out, x.Args...)
		} else {
			out = append(out, x)
		}
	}
	if len(out) == 0 {
		return True
	}
	if len(out) == 1 {
		return out[0]
	}
	return newTerm(&Term{Kind: SBool, Op: "and", Args: out})
}

func Or(xs ...*Term) *Term {
	var out []*Term
	for _, x := range xs {
		if x.Const {
			if x.B {
				return True
			}
			continue
		}
		if x.Op == "or" {
			out = append(out, x.Args...)
		} else {
			out = append(out, x)
		}
	}
	if len(out) == 0 {
		return False
	}
	if len(out) == 1 {
		return out[0]
	}
	return newTerm(&Term{Kind: SBool, Op: "or", Args: out})
}

func Implies(a, b *Term) *Term { return Or(Not(a), b) }

func sameTerm(a, b *Term) bool {
	if a == b {
		return true
	}
	if a.Const != b.Const || a.Kind != b.Kind {
		return false
	}
	if a.Const {
		switch a.Kind {
		case SBool:
			return a.B == b.B
		case SBV:
			return a.W == b.W && a.U == b.U
		case SInt:
			return a.U == b.U
		case SString:
			return a.S == b.S
		}
	}
	if a.Op == "var" && b.Op == "var" {
		return a.S == b.S
	}
	return false
}

func Eq(a, b *Term) *Term {
	if a.Kind != b.Kind {
		panic(fmt.Sprintf("Eq sort mismatch: %s vs %s", a.SMT(), b.SMT()))
	}
	if a.Kind == SBV && a.W != b.W {
		panic(fmt.Sprintf("Eq width mismatch: %s vs %s", a.SMT(), b.SMT()))
	}
	if sameTerm(a, b) {
		return True
	}
	if a.Const && b.Const {
		return False // sameTerm covers equal consts
	}
	if a.Kind == SBool {
		if a.Const {
			if a.B {
				return b
			}
			return Not(b)
		}
		if b.Const {
			if b.B {
				return a
			}
			return Not(a)
		}
	}
	// ite(c, k1, k2) == k  with constants
	if a.Op == "ite" && b.Const {
		return iteEqConst(a, b)
	}
	if b.Op == "ite" && a.Const {
		return iteEqConst(b, a)
	}
	if a.Kind == SBV && (a.IntF != nil || b.IntF != nil) {
		if ia, ib := intForm(a), intForm(b); ia != nil && ib != nil {
			if ia.Const && ib.Const {
				return BoolC(ia.U == ib.U)
			}
			return newTerm(&Term{Kind: SBool, Op: "=", Args: []*Term{ia, ib}})
		}
	}
	// string: concat-of-constants prefix mismatch quick checks
	if a.Kind == SString {
		if r := strEqQuick(a, b); r != nil {
			return r
		}
	}
	return newTerm(&Term{Kind: SBool, Op: "=", Args: []*Term{a, b}})
}

func iteEqConst(ite, k *Term) *Term {
	c, x, y := ite.Args[0], ite.Args[1], ite.Args[2]
	if x.Const && y.Const {
		ex, ey := sameTerm(x, k), sameTerm(y, k)
		switch {
		case ex && ey:
			return True
		case ex:
			return c
		case ey:
			return Not(c)
		default:
			return False
		}
	}
	if x.Const || y.Const || x.Op == "ite" || y.Op == "ite" {
		return Or(And(c, Eq(x, k)), And(Not(c), Eq(y, k)))
	}
	return newTerm(&Term{Kind: SBool, Op: "=", Args: []*Term{ite, k}})
}

func Ite(c, a, b *Term) *Term {
	if c.Const {
		if c.B {
			return a
		}
		return b
	}
	if sameTerm(a, b) {
		return a
	}
	if a.Kind == SBool {
		if a.Const && b.Const {
			if a.B {
				return c
			}
			return Not(c)
		}
		if a.Const {
			if a.B {
				return Or(c, b)
			}
			return And(Not(c), b)
		}
		if b.Const {
			if b.B {
				return Or(Not(c), a)
			}
			return And(c, a)
		}
	}
	t := &Term{Kind: a.Kind, W: a.W, Op: "ite", Args: []*Term{c, a, b}}
	if a.IntF != nil && b.IntF != nil {
		t.IntF = newTerm(&Term{Kind: SInt, Op: "ite", Args: []*Term{c, a.IntF, b.IntF}})
	}
	return newTerm(t)
}

// ---------------------------------------------------------------- bit-vectors

func bvBin(op string, a, b *Term) *Term {
	if a.W != b.W {
		panic(fmt.Sprintf("bv width mismatch %s: %d vs %d (%s, %s)", op, a.W, b.W, a.SMT(), b.SMT()))
	}
	return newTerm(&Term{Kind: SBV, W: a.W, Op: op, Args: []*Term{a, b}})
}

func smallNonNeg(t *Term) bool { return t.Const && t.Kind == SBV && t.Signed() >= 0 && t.Signed() < (1<<40) }

func intForm(t *Term) *Term {
	if t.IntF != nil {
		return t.IntF
	}
	if t.Const && t.Kind == SBV {
		v := t.Signed()
		if v > -(1<<40) && v < (1<<40) {
			return IntC(v)
		}
	}
	return nil
}

func BVAdd(a, b *Term) *Term {
	if a.Const && b.Const {
		return BVC(a.U+b.U, a.W)
	}
	if a.Const && a.U == 0 {
		return b
	}
	if b.Const && b.U == 0 {
		return a
	}
	t := bvBin("bvadd", a, b)
	// (x + c1) + c2
	if b.Const && a.Op == "bvadd" && a.Args[1].Const {
		t = bvBin("bvadd", a.Args[0], BVC(a.Args[1].U+b.U, a.W))
		if t.Args[1].U == 0 {
			return a.Args[0]
		}
	}
	ia, ib := intForm(a), intForm(b)
	if ia != nil && ib != nil && (a.IntF != nil || b.IntF != nil) {
		t.IntF = intArith("+", ia, ib)
	}
	return t
}

func intArith(op string, a, b *Term) *Term {
	if a.Const && b.Const {
		switch op {
		case "+":
			return IntC(int64(a.U) + int64(b.U))
		case "-":
			return IntC(int64(a.U) - int64(b.U))
		}
	}
	return newTerm(&Term{Kind: SInt, Op: op, Args: []*Term{a, b}})
}

func BVSub(a, b *Term) *Term {
	if a.Const && b.Const {
		return BVC(a.U-b.U, a.W)
	}
	if b.Const && b.U == 0 {
		return a
	}
	if sameTerm(a, b) {
		return BVC(0, a.W)
	}
	if b.Const {
		return BVAdd(a, BVC(-b.U, a.W))
	}
	t := bvBin("bvsub", a, b)
	ia, ib := intForm(a), intForm(b)
	if ia != nil && ib != nil && (a.IntF != nil || b.IntF != nil) {
		// only valid if result is non-negative; callers that compare use it under that
		// assumption (lengths/offsets). We keep it: a-b for slicing bounds.
		t.IntF = intArith("-", ia, ib)
	}
	return t
}

func BVNeg(a *Term) *Term {
	if a.Const {
		return BVC(-a.U, a.W)
	}
	return newTerm(&Term{Kind: SBV, W: a.W, Op: "bvneg", Args: []*Term{a}})
}

func BVNot(a *Term) *Term {
	if a.Const {
		return BVC(^a.U, a.W)
	}
	return newTerm(&Term{Kind: SBV, W: a.W, Op: "bvnot", Args: []*Term{a}})
}

func BVMul(a, b *Term) *Term {
	if a.Const && b.Const {
		return BVC(a.U*b.U, a.W)
	}
	if a.Const && a.U == 1 {
		return b
	}
	if b.Const && b.U == 1 {
		return a
	}
	if (a.Const && a.U == 0) || (b.Const && b.U == 0) {
		return BVC(0, a.W)
	}
	return bvBin("bvmul", a, b)
}

func BVAnd(a, b *Term) *Term {
	if a.Const && b.Const {
		return BVC(a.U&b.U, a.W)
	}
	return bvBin("bvand", a, b)
}
func BVOr(a, b *Term) *Term {
	if a.Const && b.Const {
		return BVC(a.U|b.U, a.W)
	}
	return bvBin("bvor", a, b)
}
func BVXor(a, b *Term) *Term {
	if a.Const && b.Const {
		return BVC(a.U^b.U, a.W)
	}
	return bvBin("bvxor", a, b)
}

func BVShl(a, b *Term) *Term {
	if a.Const && b.Const {
		if b.U >= uint64(a.W) {
			return BVC(0, a.W)
		}
		return BVC(a.U<<b.U, a.W)
	}
	return bvBin("bvshl", a, b)
}
func BVLshr(a, b *Term) *Term {
	if a.Const && b.Const {
		if b.U >= uint64(a.W) {
			return BVC(0, a.W)
		}
		return BVC(a.U>>b.U, a.W)
	}
	return bvBin("bvlshr", a, b)
}
func BVAshr(a, b *Term) *Term {
	if a.Const && b.Const {
		sh := b.U
		if sh >= uint64(a.W) {
			sh = uint64(a.W - 1)
		}
		return BVC(uint64(a.Signed()>>sh), a.W)
	}
	return bvBin("bvashr", a, b)
}

func BVUDiv(a, b *Term) *Term {
	if a.Const && b.Const && b.U != 0 {
		return BVC(a.U/b.U, a.W)
	}
	return bvBin("bvudiv", a, b)
}
func BVURem(a, b *Term) *Term {
	if a.Const && b.Const && b.U != 0 {
		return BVC(a.U%b.U, a.W)
	}
	return bvBin("bvurem", a, b)
}
func BVSDiv(a, b *Term) *Term {
	if a.Const && b.Const && b.U != 0 {
		x, y := a.Signed(), b.Signed()
		if y == -1 {
			return BVC(uint64(-x), a.W)
		}
		return BVC(uint64(x/y), a.W)
	}
	return bvBin("bvsdiv", a, b)
}
func BVSRem(a, b *Term) *Term {
	if a.Const && b.Const && b.U != 0 {
		x, y := a.Signed(), b.Signed()
		if y == -1 {
			return BVC(0, a.W)
		}
		return BVC(uint64(x%y), a.W)
	}
	return bvBin("bvsrem", a, b)
}

func cmp(op string, a, b *Term) *Term {
	if a.W != b.W {
		panic(fmt.Sprintf("cmp width mismatch %s: %s %s", op, a.SMT(), b.SMT()))
	}
	return newTerm(&Term{Kind: SBool, Op: op, Args: []*Term{a, b}})
}

func intCmp(op string, a, b *Term) *Term {
	if a.Const && b.Const {
		x, y := int64(a.U), int64(b.U)
		switch op {
		case "<":
			return BoolC(x < y)
		case "<=":
			return BoolC(x <= y)
		}
	}
	return newTerm(&Term{Kind: SBool, Op: op, Args: []*Term{a, b}})
}

// Signed less-than.
func BVSlt(a, b *Term) *Term {
	if a.Const && b.Const {
		return BoolC(a.Signed() < b.Signed())
	}
	if sameTerm(a, b) {
		return False
	}
	if a.IntF != nil || b.IntF != nil {
		ia, ib := intForm(a), intForm(b)
		if ia != nil && ib != nil {
			return intCmp("<", ia, ib)
		}
	}
	return cmp("bvslt", a, b)
}
func BVSle(a, b *Term) *Term {
	if a.Const && b.Const {
		return BoolC(a.Signed() <= b.Signed())
	}
	if sameTerm(a, b) {
		return True
	}
	if a.IntF != nil || b.IntF != nil {
		ia, ib := intForm(a), intForm(b)
		if ia != nil && ib != nil {
			return intCmp("<=", ia, ib)
		}
	}
	return cmp("bvsle", a, b)
}
func BVUlt(a, b *Term) *Term {
	if a.Const && b.Const {
		return BoolC(a.U < b.U)
	}
	if sameTerm(a, b) {
		return False
	}
	return cmp("bvult", a, b)
}
func BVUle(a, b *Term) *Term {
	if a.Const && b.Const {
		return BoolC(a.U <= b.U)
	}
	if sameTerm(a, b) {
		return True
	}
	return cmp("bvule", a, b)
}

// ZeroExt / SignExt / Extract to a new width.
func BVResize(a *Term, w int, signed bool) *Term {
	if a.W == w {
		return a
	}
	if a.Const {
		if signed {
			return BVC(uint64(a.Signed()), w)
		}
		return BVC(a.U, w)
	}
	if w < a.W {
		t := newTerm(&Term{Kind: SBV, W: w, Op: fmt.Sprintf("(_ extract %d 0)", w-1), Args: []*Term{a}})
		if a.IntF != nil && w >= 32 {
			t.IntF = a.IntF
		}
		return t
	}
	op := "zero_extend"
	if signed {
		op = "sign_extend"
	}
	t := newTerm(&Term{Kind: SBV, W: w, Op: fmt.Sprintf("(_ %s %d)", op, w-a.W), Args: []*Term{a}})
	if a.IntF != nil {
		t.IntF = a.IntF
	}
	return t
}

// ---------------------------------------------------------------- strings

// fixedLenVars: string variables declared with an exact length (harness vfStringN).
var fixedLenVars sync.Map

func SetFixedLen(name string, n int) { fixedLenVars.Store(name, n) }

func StrLenInt(s *Term) *Term {
	if s.Const {
		return IntC(int64(len(s.S)))
	}
	if s.Op == "var" {
		if n, ok := fixedLenVars.Load(s.S); ok {
			return IntC(int64(n.(int)))
		}
	}
	if s.Op == "str.substr" && s.Args[1].Const && s.Args[2].Const {
		// constant window into a string of known length
		if bl := StrLenInt(s.Args[0]); bl.Const {
			o, l, n := int64(s.Args[1].U), int64(s.Args[2].U), int64(bl.U)
			if o < 0 || o >= n || l <= 0 {
				return IntC(0)
			}
			if o+l > n {
				l = n - o
			}
			return IntC(l)
		}
	}
	if s.Op == "str.++" {
		var sum *Term = IntC(0)
		for _, a := range s.Args {
			sum = intArith("+", sum, StrLenInt(a))
		}
		return sum
	}
	return newTerm(&Term{Kind: SInt, Op: "str.len", Args: []*Term{s}})
}

// Int -> BV w with IntF attached
func IntToBV(i *Term, w int) *Term {
	if i.Const {
		return BVC(i.U, w)
	}
	t := newTerm(&Term{Kind: SBV, W: w, Op: fmt.Sprintf("(_ int2bv %d)", w), Args: []*Term{i}})
	t.IntF = i
	return t
}

// BV -> Int (signed interpretation for small values; uses IntF when present)
func BVToInt(b *Term) *Term {
	if f := intForm(b); f != nil {
		return f
	}
	// signed conversion: ite(b<0, bv2nat(b)-2^w, bv2nat(b))
	nat := newTerm(&Term{Kind: SInt, Op: "bv2nat", Args: []*Term{b}})
	neg := cmp("bvslt", b, BVC(0, b.W))
	var pow *Term
	if b.W >= 63 {
		pow = Raw(SInt, 0, "18446744073709551616")
		if b.W != 64 {
			pow = Raw(SInt, 0, new(bigPow).pow(b.W))
		}
	} else {
		pow = IntC(int64(1) << uint(b.W))
	}
	return newTerm(&Term{Kind: SInt, Op: "ite", Args: []*Term{neg, newTerm(&Term{Kind: SInt, Op: "-", Args: []*Term{nat, pow}}), nat}})
}

type bigPow struct{}

func (*bigPow) pow(w int) string {
	// 2^w as decimal for w<=64
	if w < 64 {
		return strconv.FormatUint(uint64(1)<<uint(w), 10)
	}
	return "18446744073709551616"
}

func StrLen(s *Term, w int) *Term { return IntToBV(StrLenInt(s), w) }

func StrConcat(xs ...*Term) *Term {
	var out []*Term
	for _, x := range xs {
		if x.Op == "str.++" {
			for _, y := range x.Args {
				out = appendStr(out, y)
			}
		} else {
			out = appendStr(out, x)
		}
	}
	if len(out) == 0 {
		return StrC("")
	}
	if len(out) == 1 {
		return out[0]
	}
	return newTerm(&Term{Kind: SString, Op: "str.++", Args: out})
}

func appendStr(out []*Term, y *Term) []*Term {
	if y.Const && y.S == "" {
		return out
	}
	if y.Const && len(out) > 0 && out[len(out)-1].Const {
		out[len(out)-1] = StrC(out[len(out)-1].S + y.S)
		return out
	}
	return append(out, y)
}

func strEqQuick(a, b *Term) *Term {
	// compare constant prefixes / suffixes of concatenations
	pa, sa, fa := constEnds(a)
	pb, sb, fb := constEnds(b)
	n := len(pa)
	if len(pb) < n {
		n = len(pb)
	}
	if pa[:n] != pb[:n] {
		return False
	}
	m := len(sa)
	if len(sb) < m {
		m = len(sb)
	}
	if sa[len(sa)-m:] != sb[len(sb)-m:] {
		return False
	}
	if fa && fb {
		return BoolC(pa == pb)
	}
	if fa && len(pa) < len(pb) { // a fully const shorter than b's const parts
		return False
	}
	if fb && len(pb) < len(pa) {
		return False
	}
	return nil
}

// constEnds returns constant prefix, constant suffix, and whether fully constant.
func constEnds(t *Term) (string, string, bool) {
	if t.Const {
		return t.S, t.S, true
	}
	if t.Op == "str.++" {
		p, s := "", ""
		if t.Args[0].Const {
			p = t.Args[0].S
		}
		if l := t.Args[len(t.Args)-1]; l.Const {
			s = l.S
		}
		return p, s, false
	}
	return "", "", false
}

func strOp(k SortKind, op string, args ...*Term) *Term {
	return newTerm(&Term{Kind: k, Op: op, Args: args})
}

func StrAt(s, i *Term) *Term { // i is Int
	if s.Const && i.Const {
		idx := int64(i.U)
		if idx >= 0 && idx < int64(len(s.S)) {
			return StrC(s.S[idx : idx+1])
		}
		return StrC("")
	}
	return strOp(SString, "str.at", s, i)
}

func StrSubstr(s, off, n *Term) *Term { // Int off, n
	if s.Const && off.Const && n.Const {
		o, l := int64(off.U), int64(n.U)
		if o < 0 || o >= int64(len(s.S)) || l <= 0 {
			return StrC("")
		}
		if o+l > int64(len(s.S)) {
			l = int64(len(s.S)) - o
		}
		return StrC(s.S[o : o+l])
	}
	if off.Const && off.U == 0 && n.Op == "str.len" && n.Args[0] == s {
		return s
	}
	// substr over a concatenation whose leading parts have known lengths
	if s.Op == "str.++" && off.Const && n.Const {
		o, l := int64(off.U), int64(n.U)
		parts := s.Args
		// skip whole leading parts covered by the offset
		for len(parts) > 0 && o > 0 {
			pl := StrLenInt(parts[0])
			if !pl.Const || int64(pl.U) > o {
				break
			}
			o -= int64(pl.U)
			parts = parts[1:]
		}
		if o == 0 && l >= 0 {
			var take []*Term
			rem := l
			ok := true
			for _, p := range parts {
				if rem == 0 {
					break
				}
				pl := StrLenInt(p)
				if !pl.Const {
					ok = false
					break
				}
				if int64(pl.U) <= rem {
					take = append(take, p)
					rem -= int64(pl.U)
				} else if p.Const {
					take = append(take, StrC(p.S[:rem]))
					rem = 0
				} else {
					ok = false
					break
				}
			}
			if ok && rem == 0 {
				return StrConcat(take...)
			}
		}
	}
	if sl := StrLenInt(s); sl.Const && off.Const && n.Const && off.U == 0 && int64(n.U) == int64(sl.U) {
		return s
	}
	// general case over a concatenation of parts with known lengths: per-part sub-ranges
	if s.Op == "str.++" && off.Const && n.Const && int64(off.U) >= 0 && int64(n.U) >= 0 {
		o, l := int64(off.U), int64(n.U)
		var take []*Term
		ok := true
		for _, p := range s.Args {
			if l == 0 {
				break
			}
			pl := StrLenInt(p)
			if !pl.Const {
				ok = false
				break
			}
			n0 := int64(pl.U)
			if o >= n0 {
				o -= n0
				continue
			}
			cnt := n0 - o
			if cnt > l {
				cnt = l
			}
			take = append(take, StrSubstr(p, IntC(o), IntC(cnt)))
			l -= cnt
			o = 0
		}
		if ok {
			return StrConcat(take...)
		}
	}
	// substr of a substr with constant bounds
	if s.Op == "str.substr" && off.Const && n.Const && s.Args[1].Const && s.Args[2].Const {
		io, il := int64(s.Args[1].U), int64(s.Args[2].U)
		o, l := int64(off.U), int64(n.U)
		if o >= 0 && l >= 0 && io >= 0 && il >= 0 {
			if o >= il {
				return StrC("")
			}
			if o+l > il {
				l = il - o
			}
			return StrSubstr(s.Args[0], IntC(io+o), IntC(l))
		}
	}
	return strOp(SString, "str.substr", s, off, n)
}

func StrPrefixOf(p, s *Term) *Term { // p is prefix of s
	if p.Const && s.Const {
		return BoolC(strings.HasPrefix(s.S, p.S))
	}
	if p.Const && p.S == "" {
		return True
	}
	if p.Const {
		cp, _, _ := constEnds(s)
		n := len(cp)
		if len(p.S) <= n {
			return BoolC(strings.HasPrefix(cp, p.S))
		}
		if cp != p.S[:n] {
			return False
		}
	}
	return strOp(SBool, "str.prefixof", p, s)
}
func StrSuffixOf(p, s *Term) *Term {
	if p.Const && s.Const {
		return BoolC(strings.HasSuffix(s.S, p.S))
	}
	if p.Const && p.S == "" {
		return True
	}
	if p.Const {
		_, cs, _ := constEnds(s)
		if len(p.S) <= len(cs) {
			return BoolC(strings.HasSuffix(cs, p.S))
		}
		if !strings.HasSuffix(p.S, cs) {
			return False
		}
	}
	return strOp(SBool, "str.suffixof", p, s)
}
func StrContains(s, sub *Term) *Term {
	if sub.Const && s.Const {
		return BoolC(strings.Contains(s.S, sub.S))
	}
	if sub.Const && sub.S == "" {
		return True
	}
	if sub.Const && s.Op == "str.++" {
		for _, a := range s.Args {
			if a.Const && strings.Contains(a.S, sub.S) {
				return True
			}
		}
	}
	return strOp(SBool, "str.contains", s, sub)
}
func StrIndexOf(s, sub, from *Term) *Term { // Int result
	if s.Const && sub.Const && from.Const {
		f := int64(from.U)
		if f < 0 || f > int64(len(s.S)) {
			return IntC(-1)
		}
		i := strings.Index(s.S[f:], sub.S)
		if i < 0 {
			return IntC(-1)
		}
		return IntC(int64(i) + f)
	}
	return strOp(SInt, "str.indexof", s, sub, from)
}
func StrReplace(s, old, nw *Term) *Term { // first occurrence
	if s.Const && old.Const && nw.Const {
		return StrC(strings.Replace(s.S, old.S, nw.S, 1))
	}
	return strOp(SString, "str.replace", s, old, nw)
}
func StrReplaceAll(s, old, nw *Term) *Term {
	if s.Const && old.Const && nw.Const {
		return StrC(strings.ReplaceAll(s.S, old.S, nw.S))
	}
	if old.Const && old.S == "" {
		// Go inserts between every rune; not modelled
		return nil
	}
	return strOp(SString, "str.replace_all", s, old, nw)
}
func StrLt(a, b *Term) *Term {
	if a.Const && b.Const {
		return BoolC(a.S < b.S)
	}
	return strOp(SBool, "str.<", a, b)
}
func StrLe(a, b *Term) *Term {
	if a.Const && b.Const {
		return BoolC(a.S <= b.S)
	}
	return strOp(SBool, "str.<=", a, b)
}
func StrToCode(s *Term) *Term { // Int
	if s.Const {
		if len(s.S) == 1 {
			return IntC(int64(s.S[0]))
		}
		return IntC(-1)
	}
	return strOp(SInt, "str.to_code", s)
}
func StrFromCode(i *Term) *Term {
	if i.Const {
		v := int64(i.U)
		if v >= 0 && v < 128 {
			return StrC(string([]byte{byte(v)}))
		}
	}
	return strOp(SString, "str.from_code", i)
}
func StrInRe(s *Term, re *Term) *Term {
	return strOp(SBool, "str.in_re", s, re)
}

// AsciiOnly constrains s to bytes 0x00..0x7f.
func AsciiOnly(s *Term) *Term {
	return StrInRe(s, Raw(SRegLan, 0, `(re.* (re.range "\u{0}" "\u{7f}"))`))
}

// popcount helper kept for completeness
var _ = bits.OnesCount64
