package sym

import (
	"fmt"
	"strings"
	"go/types"
)

// bufio.Writer, bytes.Buffer, os.Pipe, io.Copy (DESIGN.md 3.2). A bufio.Writer is a heap
// object holding the sink and the bytes still in user space; bytes reach the sink only on
// Flush, on overflow (default size 4096), or directly when a large write meets an empty
// buffer / ReadFrom meets an empty buffer over an *os.File (the bypass that makes
// os/exec -> bufio.Writer effectively unbuffered).

const bufioSize = 4096

type bufWriter struct {
	Sink Value   // Iface (io.Writer)
	Buf  []*Term // buffered chunks
}

func (b bufWriter) bufLen() *Term {
	n := IntC(0)
	for _, c := range b.Buf {
		n = intArith("+", n, StrLenInt(c))
	}
	return n
}

func (e *Engine) bwOf(st *State, v Value) (int, bufWriter, bool) {
	p, ok := v.(Ptr)
	if !ok || p.IsNil() {
		return 0, bufWriter{}, false
	}
	o, ok := st.Heap[p.Obj].(Opaque)
	if !ok || o.Kind != "bufio.Writer" {
		return 0, bufWriter{}, false
	}
	return p.Obj, o.Data.(bufWriter), true
}

// sinkWrite delivers data to the writer w (model *os.File directly; anything else through
// its Write method, which must complete without forking).
func (e *Engine) sinkWrite(c *Call, st *State, w Value, data *Term) {
	iv, _ := w.(Iface)
	if _, h, ok := handleOf(st, iv.V); ok {
		if h.Closed {
			return // write on a closed file fails; the bytes are lost
		}
		f := &st.fs().Files[h.File]
		f.Data = append(f.Data, data)
		e.fsTouch(st, h.File)
		return
	}
	if obj, bw, ok := e.bwOf(st, iv.V); ok {
		bw.Buf = append(append([]*Term(nil), bw.Buf...), data)
		st.Heap[obj] = Opaque{Kind: "bufio.Writer", Data: bw}
		return
	}
	panic(unsupported(fmt.Sprintf("sinkWrite to %s", ValStr(w))))
}

func registerIO(e *Engine) {
	bwT := func() types.Type {
		return types.NewPointer(e.Prog.ImportedPackage("bufio").Type("Writer").Type())
	}
	_ = bwT
	e.Intr["bufio.NewWriter"] = func(c *Call) []*State {
		id := c.St.Alloc(Opaque{Kind: "bufio.Writer", Data: bufWriter{Sink: c.Args[0]}})
		return c.Return(Ptr{Obj: id})
	}
	flush := func(c *Call, st *State, obj int, bw bufWriter) {
		for _, ch := range bw.Buf {
			e.sinkWrite(c, st, bw.Sink, ch)
		}
		bw.Buf = nil
		st.Heap[obj] = Opaque{Kind: "bufio.Writer", Data: bw}
	}
	e.Intr["(*bufio.Writer).Flush"] = func(c *Call) []*State {
		obj, bw, ok := e.bwOf(c.St, c.Args[0])
		if !ok {
			return c.Panic("nil-deref", "Flush on nil *bufio.Writer")
		}
		var crashed []*State
		if len(bw.Buf) > 0 {
			crashed = e.crashPoint(c, "flush")
			for _, cr := range crashed {
				// torn flush: an arbitrary proper prefix of the buffered bytes reached the sink
				all := StrConcat(bw.Buf...)
				pre := FreshVar("torn", SString, 0)
				cr.Nondets = append(cr.Nondets, NondetRec{Tag: "torn.prefix", Kind: "string", Term: pre})
				cr.Assume(StrPrefixOf(pre, all))
				cr.Assume(Not(Eq(pre, all)))
				e.sinkWrite(c, cr, bw.Sink, pre)
				if iv, ok := bw.Sink.(Iface); ok {
					if _, h, ok := handleOf(cr, iv.V); ok {
						cr.fs().Files[h.File].Torn = true
					}
				}
			}
		}
		flush(c, c.St, obj, bw)
		c.Return(Iface{})
		return withCrash(c, crashed, nil)
	}
	e.Intr["(*bufio.Writer).Buffered"] = func(c *Call) []*State {
		_, bw, _ := e.bwOf(c.St, c.Args[0])
		return c.Return(IntToBV(bw.bufLen(), 64))
	}
	// Write(p): see bufio.Writer.Write; three cases on (buffered b, n = len(p))
	bwWrite := func(c *Call, data *Term) []*State {
		obj, bw, ok := e.bwOf(c.St, c.Args[0])
		if !ok {
			return c.Panic("nil-deref", "Write on nil *bufio.Writer")
		}
		b, n := bw.bufLen(), StrLenInt(data)
		avail := intArith("-", IntC(bufioSize), b)
		fits := intCmp("<=", n, avail)
		empty := Eq(b, IntC(0))
		ret := Tuple{IntToBV(n, 64), Iface{}}
		setRet := func(st *State) {
			if c.RetTo != nil {
				e.setLocal(st.Threads[c.Th.ID].top(), c.RetTo, ret)
			}
		}
		outs := []Outcome{
			{Cond: fits, Eff: func(st *State) {
				nb := bw
				nb.Buf = append(append([]*Term(nil), bw.Buf...), data)
				st.Heap[obj] = Opaque{Kind: "bufio.Writer", Data: nb}
				setRet(st)
			}},
			{Cond: And(Not(fits), empty), Eff: func(st *State) {
				// large write, empty buffer: written directly
				e.sinkWrite(c, st, bw.Sink, data)
				setRet(st)
			}},
			{Cond: And(Not(fits), Not(empty), intCmp("<=", intArith("-", n, avail), IntC(bufioSize))), Eff: func(st *State) {
				// fill the buffer, flush; the rest (<= size) is buffered
				head := StrSubstr(data, IntC(0), avail)
				rest := StrSubstr(data, avail, intArith("-", n, avail))
				for _, ch := range bw.Buf {
					e.sinkWrite(c, st, bw.Sink, ch)
				}
				e.sinkWrite(c, st, bw.Sink, head)
				nb := bw
				nb.Buf = []*Term{rest}
				st.Heap[obj] = Opaque{Kind: "bufio.Writer", Data: nb}
				setRet(st)
			}},
			{Cond: And(Not(fits), Not(empty), intCmp(">", intArith("-", n, avail), IntC(bufioSize))), Eff: func(st *State) {
				// fill the buffer, flush; the rest (> size) meets an empty buffer and is written directly
				for _, ch := range bw.Buf {
					e.sinkWrite(c, st, bw.Sink, ch)
				}
				e.sinkWrite(c, st, bw.Sink, data)
				nb := bw
				nb.Buf = nil
				st.Heap[obj] = Opaque{Kind: "bufio.Writer", Data: nb}
				setRet(st)
			}},
		}
		return c.outcomesNoRet(c.sol2(), outs)
	}
	e.Intr["(*bufio.Writer).Write"] = func(c *Call) []*State { return bwWrite(c, e.bytesTerm(c.St, c.Args[1])) }
	e.Intr["(*bufio.Writer).WriteString"] = func(c *Call) []*State { return bwWrite(c, c.argTerm(1)) }
	e.Intr["(*bufio.Writer).WriteByte"] = func(c *Call) []*State {
		obj, bw, ok := e.bwOf(c.St, c.Args[0])
		if !ok {
			return c.Panic("nil-deref", "WriteByte on nil *bufio.Writer")
		}
		ch := StrFromCode(BVToInt(BVResize(c.argTerm(1), 64, false)))
		if c.argTerm(1).Const {
			ch = StrC(string(rune(c.argTerm(1).U)))
		}
		full := intCmp(">=", bw.bufLen(), IntC(bufioSize))
		return c.outcomesNoRet(c.sol2(), []Outcome{
			{Cond: Not(full), Eff: func(st *State) {
				nb := bw
				nb.Buf = append(append([]*Term(nil), bw.Buf...), ch)
				st.Heap[obj] = Opaque{Kind: "bufio.Writer", Data: nb}
				if c.RetTo != nil {
					e.setLocal(st.Threads[c.Th.ID].top(), c.RetTo, Iface{})
				}
			}},
			{Cond: full, Eff: func(st *State) {
				for _, x := range bw.Buf {
					e.sinkWrite(c, st, bw.Sink, x)
				}
				nb := bw
				nb.Buf = []*Term{ch}
				st.Heap[obj] = Opaque{Kind: "bufio.Writer", Data: nb}
				if c.RetTo != nil {
					e.setLocal(st.Threads[c.Th.ID].top(), c.RetTo, Iface{})
				}
			}},
		})
	}
	// vfReadFrom(w, data): io.Copy discipline of os/exec for one chunk of child output:
	// *os.File => direct; io.ReaderFrom (bufio.Writer) => ReadFrom; otherwise Write.
	e.Intr["(*bufio.Writer).ReadFrom"] = func(c *Call) []*State {
		panic(unsupported("(*bufio.Writer).ReadFrom from a reader: use harness vfCopyTo"))
	}
	e.Intr["harness.vfCopyTo"] = func(c *Call) []*State {
		w := c.Args[0].(Iface)
		data := c.argTerm(1)
		if w.T == nil {
			return c.Return(nil)
		}
		if _, _, ok := handleOf(c.St, w.V); ok {
			e.sinkWrite(c, c.St, w, data)
			return c.Return(nil)
		}
		if obj, bw, ok := e.bwOf(c.St, w.V); ok {
			// bufio.Writer.ReadFrom: empty buffer over an *os.File => the file's ReadFrom (direct)
			siv, _ := bw.Sink.(Iface)
			_, _, sinkIsFile := handleOf(c.St, siv.V)
			b, n := bw.bufLen(), StrLenInt(data)
			empty := Eq(b, IntC(0))
			total := intArith("+", b, n)
			var outs []Outcome
			if sinkIsFile {
				outs = append(outs, Outcome{Cond: empty, Eff: func(st *State) { e.sinkWrite(c, st, bw.Sink, data) }})
			}
			cond := Not(empty)
			if !sinkIsFile {
				cond = True
			}
			// otherwise: fills and flushes 4096-byte blocks; (b+n) mod 4096 bytes stay buffered
			remLen := newTerm(&Term{Kind: SInt, Op: "mod", Args: []*Term{total, IntC(bufioSize)}})
			outs = append(outs, Outcome{Cond: cond, Eff: func(st *State) {
				all := StrConcat(append(append([]*Term(nil), bw.Buf...), data)...)
				outLen := intArith("-", total, remLen)
				e.sinkWrite(c, st, bw.Sink, StrSubstr(all, IntC(0), outLen))
				nb := bw
				nb.Buf = []*Term{StrSubstr(all, outLen, remLen)}
				st.Heap[obj] = Opaque{Kind: "bufio.Writer", Data: nb}
			}})
			return c.outcomesNoRet(c.sol2(), outs)
		}
		// any other writer (io.MultiWriter ...): plain Write of the chunk
		id := c.St.Alloc(Opaque{Kind: "noop"})
		_ = id
		return e.invokeMethod(c, w, "Write", []Value{Bytes{S: data}})
	}

	// ---- bytes.Buffer (content kept per object)
	bbKey := func(c *Call) string { return "bbuf:" + ptrKey(c.Args[0].(Ptr)) }
	bbGet := func(c *Call) *Term {
		if v, ok := c.St.Ghost[bbKey(c)]; ok {
			return v.(*Term)
		}
		return StrC("")
	}
	e.Intr["(*bytes.Buffer).Write"] = func(c *Call) []*State {
		d := e.bytesTerm(c.St, c.Args[1])
		c.St.Ghost[bbKey(c)] = StrConcat(bbGet(c), d)
		return c.Return(Tuple{StrLen(d, 64), Iface{}})
	}
	e.Intr["(*bytes.Buffer).WriteString"] = func(c *Call) []*State {
		d := c.argTerm(1)
		c.St.Ghost[bbKey(c)] = StrConcat(bbGet(c), d)
		return c.Return(Tuple{StrLen(d, 64), Iface{}})
	}
	e.Intr["(*bytes.Buffer).String"] = func(c *Call) []*State { return c.Return(bbGet(c)) }
	e.Intr["(*bytes.Buffer).Len"] = func(c *Call) []*State { return c.Return(StrLen(bbGet(c), 64)) }
	e.Intr["(*bytes.Buffer).Bytes"] = func(c *Call) []*State { return c.Return(Bytes{S: bbGet(c)}) }

	// ---- os.Pipe: an anonymous file; the read end sees what the write end appended
	e.Intr["os.Pipe"] = func(c *Call) []*State {
		n := len(c.St.fs().Files)
		idx := c.St.fsAdd(StrC(fmt.Sprintf("pipe:[%d]", n)), false, BVC(0, 64))
		r := e.newFile(c.St, fileHandle{File: idx, ReadOnly: true, Name: StrC("|0")})
		w := e.newFile(c.St, fileHandle{File: idx, Append: true, Name: StrC("|1")})
		return c.Return(Tuple{r, w, Iface{}})
	}
	// io.Copy(dst, src): src must be a model *os.File (read to EOF); dst a bytes.Buffer or any writer
	e.Intr["io.Copy"] = func(c *Call) []*State {
		dst, src := c.Args[0].(Iface), c.Args[1].(Iface)
		_, h, ok := handleOf(c.St, src.V)
		if !ok {
			panic(unsupported("io.Copy from a reader without model"))
		}
		if pf := c.St.fs().Files[h.File].Path; pf.Const && strings.HasPrefix(pf.S, "pipe:[") && c.St.Ghost[fmt.Sprintf("pipeclosed:%d", h.File)] == nil {
			// reading a pipe to EOF: drains it (writers never block on capacity from now on)
			// and returns only after the write end has been closed
			c.St.Ghost[fmt.Sprintf("pipedrain:%d", h.File)] = True
			c.Retry()
			e.block(c.St, c.Th, &BlockCond{Kind: "pipe-closed", Obj: h.File})
			succ, cont := e.schedule(c.St, c.sol2())
			if cont {
				return nil
			}
			return succ
		}
		data := StrConcat(c.St.fs().Files[h.File].Data...)
		n := StrLen(data, 64)
		if dp, ok := dst.V.(Ptr); ok {
			if _, isOpaque := c.St.Heap[dp.Obj].(Opaque); !isOpaque && dst.T != nil && dst.T.String() == "*bytes.Buffer" {
				key := "bbuf:" + ptrKey(dp)
				cur := StrC("")
				if v, ok := c.St.Ghost[key]; ok {
					cur = v.(*Term)
				}
				c.St.Ghost[key] = StrConcat(cur, data)
				return c.Return(Tuple{n, Iface{}})
			}
		}
		e.sinkWrite(c, c.St, dst, data)
		return c.Return(Tuple{n, Iface{}})
	}
	e.Intr["(*os.File).Read"] = func(c *Call) []*State {
		panic(unsupported("(*os.File).Read: byte-level reads are not modelled"))
	}
	// io.MultiWriter and its Write are executed from source (plain loops over the writers)
	allowExecNames["io.MultiWriter"] = true
	allowExecNames["(*io.multiWriter).Write"] = true
	allowExecNames["(*io.multiWriter).WriteString"] = true
}

// Unix-socket listener (DESIGN.md 3.3): net.Listen("unix", p) fails with EADDRINUSE iff an
// entry exists at p, else creates it and binds; Accept blocks until the listener is closed
// (connections are delivered through the sock.Client.Request summary, not through Accept).
func registerNet(e *Engine) {
	e.Intr["net.Listen"] = func(c *Call) []*State {
		addr := c.argTerm(1)
		return e.fsResolve(c, addr, func(st *State, idx int) Value {
			if idx >= 0 && st.fs().Files[idx].Exists {
				return Tuple{Iface{}, e.fsError(st, "addrinuse", "listen unix: bind: address already in use")}
			}
			if idx < 0 {
				st.fsAdd(addr, false, e.now(st))
			} else {
				st.fs().Files[idx].Exists = true
			}
			chID := st.Alloc(&ChanObj{Cap: 0, ET: types.NewStruct(nil, nil)})
			id := st.Alloc(Opaque{Kind: "listener", Data: [2]interface{}{addr, chID}})
			if addr.Const {
				st.Ghost["listening:"+addr.S] = True
			}
			st.Events = append(st.Events, Event{Kind: "listen", Args: []Value{addr}, Thr: c.Th.ID})
			p := e.Prog.ImportedPackage("net")
			return Tuple{Iface{T: types.NewPointer(p.Type("UnixListener").Type()), V: Ptr{Obj: id}}, Iface{}}
		})
	}
	lst := func(c *Call) (*Term, int) {
		d := c.St.Heap[c.Args[0].(Ptr).Obj].(Opaque).Data.([2]interface{})
		return d[0].(*Term), d[1].(int)
	}
	e.Intr["(*net.UnixListener).Accept"] = func(c *Call) []*State {
		_, ch := lst(c)
		co := c.St.Heap[ch].(*ChanObj)
		if co.Closed {
			return c.Return(Tuple{Iface{}, e.fsError(c.St, "closed", "use of closed network connection")})
		}
		c.Retry()
		e.block(c.St, c.Th, &BlockCond{Kind: "recv", Obj: ch})
		succ, cont := e.schedule(c.St, c.sol2())
		if cont {
			return nil
		}
		return succ
	}
	e.Intr["(*net.UnixListener).Close"] = func(c *Call) []*State {
		addr, ch := lst(c)
		co := *c.St.Heap[ch].(*ChanObj)
		if co.Closed {
			return c.Return(e.fsError(c.St, "closed", "use of closed network connection"))
		}
		co.Closed = true
		c.St.Heap[ch] = &co
		if addr.Const {
			delete(c.St.Ghost, "listening:"+addr.S)
		}
		c.St.Events = append(c.St.Events, Event{Kind: "unlisten", Args: []Value{addr}, Thr: c.Th.ID})
		return c.Return(Iface{})
	}
}
