package sym

import (
	"fmt"
	"go/token"
	"go/types"
	"sync"

	"golang.org/x/tools/go/ssa"
)

// ---------------------------------------------------------------- function info

type FnInfo struct {
	Fn    *ssa.Function
	Index map[ssa.Value]int
	N     int
	NInst int
}

var (
	fnInfoMu sync.Mutex
	fnInfos  = map[*ssa.Function]*FnInfo{}
)

func infoOf(fn *ssa.Function) *FnInfo {
	fnInfoMu.Lock()
	defer fnInfoMu.Unlock()
	if fi, ok := fnInfos[fn]; ok {
		return fi
	}
	fi := &FnInfo{Fn: fn, Index: map[ssa.Value]int{}}
	for _, p := range fn.Params {
		fi.Index[p] = fi.N
		fi.N++
	}
	for _, p := range fn.FreeVars {
		fi.Index[p] = fi.N
		fi.N++
	}
	for _, b := range fn.Blocks {
		for _, in := range b.Instrs {
			fi.NInst++
			if v, ok := in.(ssa.Value); ok {
				fi.Index[v] = fi.N
				fi.N++
			}
		}
	}
	fnInfos[fn] = fi
	return fi
}

// ---------------------------------------------------------------- frames / threads

type DeferRec struct {
	Fn   *Closure
	Args []Value
	// interface-invoke defers are resolved at Defer time into Fn/Args
}

type Frame struct {
	Info   *FnInfo
	Block  *ssa.BasicBlock
	Prev   *ssa.BasicBlock
	IP     int
	Locals []Value
	Defers []DeferRec
	// where to deliver the result in the caller: the call instruction (Value) or nil
	RetTo ssa.Value
	// running deferred calls
	InDefers   bool // RunDefers in progress (normal path)
	Unwinding  bool // panic unwinding through this frame
	Recovered  bool
	IsDeferred bool // this frame is a deferred call (recover() is meaningful)
	// unroll counters per loop header block index
	Visits map[int]int
	// onReturn hook (engine-level continuation), may be nil
	OnRet string
}

func (f *Frame) clone() *Frame {
	nf := *f
	nf.Locals = make([]Value, len(f.Locals))
	copy(nf.Locals, f.Locals)
	if len(f.Defers) > 0 {
		nf.Defers = make([]DeferRec, len(f.Defers))
		copy(nf.Defers, f.Defers)
	}
	if f.Visits != nil {
		nf.Visits = make(map[int]int, len(f.Visits))
		for k, v := range f.Visits {
			nf.Visits[k] = v
		}
	}
	return &nf
}

type ThreadStatus int

const (
	TRunnable ThreadStatus = iota
	TBlocked
	TDone
)

type PanicInfo struct {
	Val   Value
	Msg   string
	Pos   string // repo source position of the faulting instruction
	Fn    string // function containing it
	Kind  string // nil-deref, index, type-assert, explicit, div0, nil-map ...
	Stack []string
}

type Thread struct {
	ID     int
	Frames []*Frame
	Status ThreadStatus
	// blocking condition, re-evaluated by the scheduler
	Block       *BlockCond
	Panic       *PanicInfo
	Name        string
	Result      Value // return value of the root function
	Sleeps      int
	LastSig     string // state signature at last poll-sleep (stutter reduction)
	NoYield     bool
	EventFired  bool
	Slept       bool
	SendPending bool
}

type BlockCond struct {
	Kind string // "mutex","rlock","recv","send","wg","select","sleep","event","join"
	Obj  int
	Ptr  Ptr
	Aux  interface{}
}

func (t *Thread) clone() *Thread {
	nt := *t
	nt.Frames = make([]*Frame, len(t.Frames))
	for i, f := range t.Frames {
		nt.Frames[i] = f.clone()
	}
	if t.Block != nil {
		b := *t.Block
		nt.Block = &b
	}
	return &nt
}

func (t *Thread) top() *Frame {
	if len(t.Frames) == 0 {
		return nil
	}
	return t.Frames[len(t.Frames)-1]
}

// ---------------------------------------------------------------- events / nondets

type Event struct {
	Kind string
	Args []Value
	Thr  int
}

type NondetRec struct {
	Src  string // "h" = drawn by a harness vf* call (replayable), "" = engine/environment
	Tag  string
	Kind string // bool,int,string,choice
	Term *Term  // symbolic variable (nil for choice)
	Conc int    // concrete value for choice
}

type Violation struct {
	Label  string      `json:"label"`
	Kind   string      `json:"kind"` // assert, panic, deadlock, livelock, unwind, unknown
	Pos    string      `json:"pos"`
	Fn     string      `json:"fn"`
	Msg    string      `json:"msg,omitempty"`
	Class  string      `json:"class,omitempty"`
	Model  []NondetVal `json:"model"`
	Events []string    `json:"events,omitempty"`
	Labels []string    `json:"labels,omitempty"`
	Path   int         `json:"path"`
	Delays int         `json:"delays"`
}

type NondetVal struct {
	Src   string `json:"src,omitempty"`
	Tag   string `json:"tag"`
	Kind  string `json:"kind"`
	Value string `json:"value"`
}

// ---------------------------------------------------------------- state

type State struct {
	Heap    []Value
	Threads []*Thread
	Cur     int
	PC      []*Term
	Events  []Event
	Nondets []NondetRec
	Classes []string
	Labels  []string // harness label trace (assert / reach sites passed)
	World   *World
	Globals map[*ssa.Global]int // lazily allocated global objects (copy-on-clone)
	Steps   int
	Delays  int
	ID      int
	Depth   int
	// ghost key/value store for harness monitors
	Ghost map[string]Value
	// set when the state ended
	Ended    bool
	Cut      string
	Timers   []Timer
	Clock    *Term // last time.Now() value (non-decreasing), nil if unused
	ClockN   int
	Crashed  bool
	NoReplay bool // path depends on environment content that native replay cannot reproduce
	Variant  string // distinguishes counterexamples of the same site found through a representative input (kept as separate violations)
	FSOps    int
	CrashAt  int // -1: no crash planned
	// facts known true (syntactic) for cheap branch decisions
	known map[string]bool
	Conc  map[string]int64     // concretised terms (immutable map, replaced on write)
	Locks map[string]LockState // mutex / rwmutex state keyed by pointer
	WG    map[string]int       // waitgroup counters keyed by pointer
	SMaps map[string]int       // sync.Map -> MapObj object id
}

type LockState struct {
	W     bool
	R     int
	Owner int
}

func ptrKey(p Ptr) string { return fmt.Sprintf("%d%v", p.Obj, p.Path) }

type Timer struct {
	ID       int
	Chan     int // channel object
	Armed    bool
	Fired    bool
	Order    int // arming order
	Dur      *Term
	ArmClock *Term // program clock when the timer was armed (nil: unknown)
	Kind     string
	OnFire   func(st *State)
}

func NewState() *State {
	s := &State{Heap: make([]Value, 1, 256), Globals: map[*ssa.Global]int{}, Ghost: map[string]Value{}, CrashAt: -1, known: map[string]bool{}}
	s.World = NewWorld()
	s.Locks = map[string]LockState{}
	s.WG = map[string]int{}
	s.SMaps = map[string]int{}
	return s
}

func (s *State) Clone() *State {
	ns := *s
	ns.Heap = make([]Value, len(s.Heap), cap(s.Heap))
	copy(ns.Heap, s.Heap)
	ns.Threads = make([]*Thread, len(s.Threads))
	for i, t := range s.Threads {
		ns.Threads[i] = t.clone()
	}
	ns.PC = s.PC[:len(s.PC):len(s.PC)]
	ns.Events = s.Events[:len(s.Events):len(s.Events)]
	ns.Nondets = s.Nondets[:len(s.Nondets):len(s.Nondets)]
	ns.Classes = s.Classes[:len(s.Classes):len(s.Classes)]
	ns.Labels = s.Labels[:len(s.Labels):len(s.Labels)]
	ns.Timers = append([]Timer(nil), s.Timers...)
	ns.Globals = make(map[*ssa.Global]int, len(s.Globals))
	for k, v := range s.Globals {
		ns.Globals[k] = v
	}
	ns.Ghost = make(map[string]Value, len(s.Ghost))
	for k, v := range s.Ghost {
		ns.Ghost[k] = v
	}
	ns.known = make(map[string]bool, len(s.known))
	for k, v := range s.known {
		ns.known[k] = v
	}
	ns.World = s.World.Clone()
	ns.Locks = make(map[string]LockState, len(s.Locks))
	for k, v := range s.Locks {
		ns.Locks[k] = v
	}
	ns.WG = make(map[string]int, len(s.WG))
	for k, v := range s.WG {
		ns.WG[k] = v
	}
	ns.SMaps = make(map[string]int, len(s.SMaps))
	for k, v := range s.SMaps {
		ns.SMaps[k] = v
	}
	return &ns
}

func (s *State) Assume(t *Term) {
	if t.Const {
		if !t.B {
			s.PC = append(s.PC, False)
		}
		return
	}
	if t.Op == "and" {
		for _, a := range t.Args {
			s.Assume(a)
		}
		return
	}
	s.PC = append(s.PC, t)
	s.known[t.SMT()] = true
	if t.Op == "not" {
		s.known["!"+t.Args[0].SMT()] = true
	}
}

// quick syntactic decision: 1 true, 0 false, -1 unknown
func (s *State) quick(t *Term) int {
	if t.Const {
		if t.B {
			return 1
		}
		return 0
	}
	k := t.SMT()
	if s.known[k] {
		return 1
	}
	if s.known["!"+k] {
		return 0
	}
	if t.Op == "not" && s.known[t.Args[0].SMT()] {
		return 0
	}
	return -1
}

func (s *State) Alloc(v Value) int {
	s.Heap = append(s.Heap, v)
	return len(s.Heap) - 1
}

func (s *State) cur() *Thread { return s.Threads[s.Cur] }

// ---------------------------------------------------------------- memory access

type memErr struct{ msg string }

func (e memErr) Error() string { return e.msg }

func getPath(v Value, path []int) Value {
	for _, i := range path {
		switch x := v.(type) {
		case *Struct:
			v = x.F[i]
		case *Array:
			if i < 0 || i >= len(x.E) {
				panic(memErr{fmt.Sprintf("array index %d out of %d", i, len(x.E))})
			}
			v = x.E[i]
		default:
			panic(memErr{fmt.Sprintf("getPath through %T", v)})
		}
	}
	return v
}

func setPath(v Value, path []int, nv Value) Value {
	if len(path) == 0 {
		return nv
	}
	i := path[0]
	switch x := v.(type) {
	case *Struct:
		nf := make([]Value, len(x.F))
		copy(nf, x.F)
		nf[i] = setPath(x.F[i], path[1:], nv)
		return &Struct{nf}
	case *Array:
		ne := make([]Value, len(x.E))
		copy(ne, x.E)
		ne[i] = setPath(x.E[i], path[1:], nv)
		return &Array{ne}
	}
	panic(memErr{fmt.Sprintf("setPath through %T", v)})
}

func (s *State) Load(p Ptr) Value {
	return getPath(s.Heap[p.Obj], p.Path)
}

func (s *State) Store(p Ptr, v Value) {
	s.Heap[p.Obj] = setPath(s.Heap[p.Obj], p.Path, v)
}

// ---------------------------------------------------------------- misc

func posStr(fset *token.FileSet, pos token.Pos) string {
	if !pos.IsValid() {
		return "?"
	}
	p := fset.Position(pos)
	return fmt.Sprintf("%s:%d", p.Filename, p.Line)
}

func typeOfField(t types.Type, i int) types.Type {
	return t.Underlying().(*types.Struct).Field(i).Type()
}
