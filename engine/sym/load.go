package sym

import (
	"fmt"
	"go/token"
	"os"
	"path/filepath"
	"strings"

	"golang.org/x/tools/go/packages"
	"golang.org/x/tools/go/ssa"
	"golang.org/x/tools/go/ssa/ssautil"
)

type Loaded struct {
	Prog  *ssa.Program
	Fset  *token.FileSet
	Pkgs  []*ssa.Package
	ByPath map[string]*ssa.Package
}

// Load loads patterns from repoDir with the given overlay (virtual path -> content).
func Load(repoDir string, patterns []string, overlay map[string][]byte) (*Loaded, error) {
	fset := token.NewFileSet()
	cfg := &packages.Config{
		Mode:    packages.LoadAllSyntax,
		Dir:     repoDir,
		Fset:    fset,
		Overlay: overlay,
		Env:     append(os.Environ(), "GOFLAGS=-mod=mod", "GOPROXY=off", "GOSUMDB=off", "GOTOOLCHAIN=local"),
	}
	pkgs, err := packages.Load(cfg, patterns...)
	if err != nil {
		return nil, err
	}
	var errs []string
	packages.Visit(pkgs, nil, func(p *packages.Package) {
		for _, e := range p.Errors {
			errs = append(errs, e.Error())
		}
	})
	if len(errs) > 0 {
		if len(errs) > 10 {
			errs = errs[:10]
		}
		return nil, fmt.Errorf("package load errors:\n%s", strings.Join(errs, "\n"))
	}
	prog, spkgs := ssautil.AllPackages(pkgs, ssa.InstantiateGenerics)
	prog.Build()
	l := &Loaded{Prog: prog, Fset: fset, ByPath: map[string]*ssa.Package{}}
	for _, p := range spkgs {
		if p != nil {
			l.Pkgs = append(l.Pkgs, p)
		}
	}
	for _, p := range prog.AllPackages() {
		l.ByPath[p.Pkg.Path()] = p
	}
	return l, nil
}

// InitOrder returns the packages with the given path prefixes in dependency order.
func (l *Loaded) InitOrder(prefixes []string) []*ssa.Package {
	var out []*ssa.Package
	seen := map[*ssa.Package]bool{}
	match := func(p string) bool {
		// go-swagger generated code: its initialisers only build validation enums through
		// encoding/json (not modelled) and are irrelevant to every kernel
		if strings.Contains(p, "/internal/frontend/gen/") {
			return false
		}
		for _, x := range prefixes {
			if strings.HasPrefix(p, x) {
				return true
			}
		}
		return false
	}
	var visit func(p *ssa.Package)
	visit = func(p *ssa.Package) {
		if seen[p] {
			return
		}
		seen[p] = true
		for _, imp := range p.Pkg.Imports() {
			if ip := l.Prog.Package(imp); ip != nil && match(imp.Path()) {
				visit(ip)
			}
		}
		out = append(out, p)
	}
	for _, p := range l.Pkgs {
		if match(p.Pkg.Path()) {
			visit(p)
		}
	}
	return out
}

// OverlayFromDir maps every file under harnessDir/<rel>/zz_*.go to repoDir/<rel>/zz_*.go.
func OverlayFromDir(harnessDir, repoDir string) (map[string][]byte, []string, error) {
	ov := map[string][]byte{}
	var pkgs []string
	seen := map[string]bool{}
	err := filepath.Walk(harnessDir, func(p string, info os.FileInfo, err error) error {
		if err != nil || info.IsDir() || !strings.HasSuffix(p, ".go") {
			return err
		}
		rel, _ := filepath.Rel(harnessDir, p)
		b, err := os.ReadFile(p)
		if err != nil {
			return err
		}
		ov[filepath.Join(repoDir, rel)] = b
		d := "./" + filepath.Dir(rel)
		if !seen[d] {
			seen[d] = true
			pkgs = append(pkgs, d)
			// synthesise the body-less runtime declarations for this package
			pkgName := ""
			for _, line := range strings.Split(string(b), "\n") {
				if strings.HasPrefix(line, "package ") {
					pkgName = strings.TrimSpace(strings.TrimPrefix(line, "package "))
					break
				}
			}
			tmpl, terr := os.ReadFile(filepath.Join(harnessDir, "rt.go.tmpl"))
			if terr != nil {
				return terr
			}
			ov[filepath.Join(repoDir, filepath.Dir(rel), "zz_verif_rt.go")] = []byte(strings.Replace(string(tmpl), "package PKG", "package "+pkgName, 1))
		}
		return nil
	})
	return ov, pkgs, err
}
