package sym

import (
	"crypto/md5"
	"encoding/hex"
	"go/types"
)

// crypto/md5 + encoding/hex (DESIGN.md 3.1): exact for constant input; for symbolic input
// an uninterpreted function String -> 32 lower-case hex digits (collision-freeness of MD5
// on the few paths of a harness is an assumption).
func registerHash(e *Engine) {
	e.Intr["crypto/md5.New"] = func(c *Call) []*State {
		p := c.E.Prog.ImportedPackage("crypto/md5")
		t := types.NewPointer(p.Type("digest").Type())
		id := c.St.Alloc(Opaque{Kind: "md5", Data: StrC("")})
		return c.Return(Iface{T: t, V: Ptr{Obj: id}})
	}
	e.Intr["(*crypto/md5.digest).Write"] = func(c *Call) []*State {
		obj := c.Args[0].(Ptr).Obj
		cur := c.St.Heap[obj].(Opaque).Data.(*Term)
		d := c.E.bytesTerm(c.St, c.Args[1])
		c.St.Heap[obj] = Opaque{Kind: "md5", Data: StrConcat(cur, d)}
		return c.Return(Tuple{StrLen(d, 64), Iface{}})
	}
	e.Intr["(*crypto/md5.digest).Sum"] = func(c *Call) []*State {
		obj := c.Args[0].(Ptr).Obj
		cur := c.St.Heap[obj].(Opaque).Data.(*Term)
		if cur.Const {
			sum := md5.Sum([]byte(cur.S))
			return c.Return(Bytes{S: StrC(hex.EncodeToString(sum[:])), Hex: true})
		}
		DeclareFun("md5hex", "(declare-fun |md5hex| (String) String)")
		h := App("md5hex", SString, 0, cur)
		c.St.Assume(StrInRe(h, Raw(SRegLan, 0, `((_ re.loop 32 32) (re.union (re.range "0" "9") (re.range "a" "f")))`)))
		return c.Return(Bytes{S: h, Hex: true})
	}
	e.Intr["encoding/hex.EncodeToString"] = func(c *Call) []*State {
		b, ok := c.Args[0].(Bytes)
		if !ok || !b.Hex {
			panic(unsupported("hex.EncodeToString of non-digest bytes"))
		}
		return c.Return(b.S)
	}
}
