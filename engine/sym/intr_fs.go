package sym

import (
	"fmt"
	"go/types"
	"strings"
)

// File-system intrinsics (DESIGN.md 3.2). Grown per obligation.

func registerFS(e *Engine) {
	registerFSWorld(e)
}

// bufio.Scanner over a strings.Reader (ScanLines): the scanner is a heap object holding
// the unread remainder of the string.
type scanState struct {
	Rest    *Term
	Tok     *Term
	TooLong bool // Scan stopped on a line that does not fit the buffer
}

func registerScanner(e *Engine) {
	e.Intr["strings.NewReader"] = func(c *Call) []*State {
		id := c.St.Alloc(Opaque{Kind: "strings.Reader", Data: c.argTerm(0)})
		return c.Return(Ptr{Obj: id})
	}
	e.Intr["bufio.NewScanner"] = func(c *Call) []*State {
		r := c.Args[0].(Iface)
		p, ok := r.V.(Ptr)
		if !ok || p.IsNil() {
			panic(unsupported("bufio.NewScanner over a reader without model"))
		}
		if _, h, isFile := handleOf(c.St, r.V); isFile {
			// scanner over a model file: the whole current content (lines are far below the 64 KiB token limit)
			id := c.St.Alloc(Opaque{Kind: "bufio.Scanner", Data: scanState{Rest: StrConcat(c.St.fs().Files[h.File].Data...), Tok: StrC("")}})
			return c.Return(Ptr{Obj: id})
		}
		o, ok := c.St.Heap[p.Obj].(Opaque)
		if !ok || o.Kind != "strings.Reader" {
			panic(unsupported("bufio.NewScanner over a reader without model"))
		}
		id := c.St.Alloc(Opaque{Kind: "bufio.Scanner", Data: scanState{Rest: o.Data.(*Term), Tok: StrC("")}})
		return c.Return(Ptr{Obj: id})
	}
	get := func(c *Call) (int, scanState) {
		p := c.Args[0].(Ptr)
		return p.Obj, c.St.Heap[p.Obj].(Opaque).Data.(scanState)
	}
	dropCR := func(l *Term) *Term {
		if l.Const {
			return StrC(strings.TrimSuffix(l.S, "\r"))
		}
		n := StrLenInt(l)
		return Ite(StrSuffixOf(StrC("\r"), l), StrSubstr(l, IntC(0), intArith("-", n, IntC(1))), l)
	}
	e.Intr["(*bufio.Scanner).Scan"] = func(c *Call) []*State {
		obj, ss := get(c)
		rest := ss.Rest
		if rest.Const {
			if rest.S == "" {
				return c.Return(False)
			}
			i := strings.Index(rest.S, "\n")
			var line, nr string
			if i < 0 {
				line, nr = rest.S, ""
			} else {
				line, nr = rest.S[:i], rest.S[i+1:]
			}
			okEff := func(st *State) {
				st.Heap[obj] = Opaque{Kind: "bufio.Scanner", Data: scanState{Rest: StrC(nr), Tok: StrC(strings.TrimSuffix(line, "\r"))}}
			}
			if sz, ok := c.St.Ghost["jsonsize:"+line].(*Term); ok {
				// the line is an encoded payload whose wire size is symbolic: a line of 64 KiB or more
				// does not fit the scanner's buffer (bufio.MaxScanTokenSize): Scan stops with ErrTooLong
				long := intCmp(">=", sz, IntC(65536))
				return c.Outcomes(c.sol2(), []Outcome{
					{Cond: Not(long), Ret: True, Eff: okEff},
					{Cond: long, Ret: False, Eff: func(st *State) {
						st.Heap[obj] = Opaque{Kind: "bufio.Scanner", Data: scanState{Rest: StrC(""), Tok: StrC(""), TooLong: true}}
					}},
				})
			}
			okEff(c.St)
			return c.Return(True)
		}
		l := FreshVar("scan.line", SString, 0)
		nr := FreshVar("scan.rest", SString, 0)
		nl := StrC("\n")
		set := func(tok, r *Term) func(*State) {
			return func(st *State) { st.Heap[obj] = Opaque{Kind: "bufio.Scanner", Data: scanState{Rest: r, Tok: tok}} }
		}
		return c.Outcomes(c.sol2(), []Outcome{
			{Cond: Eq(rest, StrC("")), Ret: False},
			{Cond: And(Not(Eq(rest, StrC(""))), Not(StrContains(rest, nl))), Ret: True, Eff: set(dropCR(rest), StrC(""))},
			{Cond: And(Eq(rest, StrConcat(l, nl, nr)), Not(StrContains(l, nl))), Ret: True, Eff: set(dropCR(l), nr)},
		})
	}
	e.Intr["(*bufio.Scanner).Bytes"] = func(c *Call) []*State {
		_, ss := get(c)
		return c.Return(Bytes{S: ss.Tok})
	}
	e.Intr["(*bufio.Scanner).Buffer"] = func(c *Call) []*State { return c.Return(nil) }
	e.Intr["(*bufio.Scanner).Text"] = func(c *Call) []*State {
		_, ss := get(c)
		return c.Return(ss.Tok)
	}
	e.Intr["(*bufio.Scanner).Err"] = func(c *Call) []*State {
		if _, ss := get(c); ss.TooLong {
			return c.Return(e.newErrorString(c.St, StrC("bufio.Scanner: token too long")))
		}
		return c.Return(Iface{})
	}
}

// encoding/json.Marshal (DESIGN.md 3.3): the payload is opaque; Marshal fails exactly
// when the value graph contains a map whose key type is not a string/integer kind
// (map[any]any from an untyped YAML tree) or a NaN/Inf float; channels and funcs do not
// occur in the kernels.
func (e *Engine) jsonUnsupported(st *State, v Value, depth int) string {
	if depth > 24 {
		return ""
	}
	switch x := v.(type) {
	case Iface:
		if x.T == nil {
			return ""
		}
		return e.jsonUnsupported(st, x.V, depth+1)
	case MapRef:
		if x.Obj == 0 {
			return ""
		}
		mo := st.Heap[x.Obj].(*MapObj)
		if _, isIface := mo.KT.Underlying().(*types.Interface); isIface {
			return "json: unsupported type: " + types.NewMap(mo.KT, mo.VT).String()
		}
		for _, mv := range mo.Vals {
			if r := e.jsonUnsupported(st, mv, depth+1); r != "" {
				return r
			}
		}
	case Slice:
		for i := 0; i < x.Len; i++ {
			if r := e.jsonUnsupported(st, st.Load(Ptr{Obj: x.Obj, Path: []int{x.Off + i}}), depth+1); r != "" {
				return r
			}
		}
	case *Struct:
		for _, f := range x.F {
			if r := e.jsonUnsupported(st, f, depth+1); r != "" {
				return r
			}
		}
	case *Array:
		for _, f := range x.E {
			if r := e.jsonUnsupported(st, f, depth+1); r != "" {
				return r
			}
		}
	case Ptr:
		if x.IsNil() {
			return ""
		}
		if _, isOpaque := st.Heap[x.Obj].(Opaque); isOpaque {
			return ""
		}
		return e.jsonUnsupported(st, st.Load(x), depth+1)
	case Float:
		if x.NaN || x.Inf {
			return "json: unsupported value: NaN/Inf"
		}
	}
	return ""
}

func registerJSON(e *Engine) {}

// jsonSymStrings collects the symbolic string leaves of a value graph (for the wire-size
// lower bound of an encoded payload).
func (e *Engine) jsonSymStrings(st *State, v Value, depth int, out *[]*Term) {
	if depth > 24 {
		return
	}
	switch x := v.(type) {
	case *Term:
		if x.Kind == SString && !x.Const {
			*out = append(*out, x)
		}
	case Iface:
		if x.T != nil {
			e.jsonSymStrings(st, x.V, depth+1, out)
		}
	case MapRef:
		if x.Obj != 0 {
			for _, mv := range st.Heap[x.Obj].(*MapObj).Vals {
				e.jsonSymStrings(st, mv, depth+1, out)
			}
		}
	case Slice:
		for i := 0; i < x.Len; i++ {
			e.jsonSymStrings(st, st.Load(Ptr{Obj: x.Obj, Path: []int{x.Off + i}}), depth+1, out)
		}
	case *Struct:
		for _, f := range x.F {
			e.jsonSymStrings(st, f, depth+1, out)
		}
	case *Array:
		for _, f := range x.E {
			e.jsonSymStrings(st, f, depth+1, out)
		}
	case Ptr:
		if !x.IsNil() {
			if _, isOpaque := st.Heap[x.Obj].(Opaque); !isOpaque {
				e.jsonSymStrings(st, st.Load(x), depth+1, out)
			}
		}
	}
}

// sort.Slice / sort.SliceStable (n <= 12): stable insertion sort calling the real less
// closure (Go's pdqsort uses insertion sort for n <= 12, hence is stable there). The
// intrinsic is re-entered after every less() call; progress lives in the Ghost store.
func registerSort(e *Engine) {
	sorter := func(c *Call) []*State {
		gk := fmt.Sprintf("sort:%d:%d", c.Th.ID, len(c.Th.Frames))
		iface := c.Args[0].(Iface)
		sl, ok := iface.V.(Slice)
		if !ok {
			panic(unsupported("sort.Slice on non-slice"))
		}
		less := c.Args[1].(*Closure)
		n := sl.Len
		if n > 12 {
			panic(unsupported("sort.Slice with more than 12 elements (stability model)"))
		}
		finish := func() []*State {
			delete(c.St.Ghost, gk)
			delete(c.St.Ghost, gk+":ret")
			delete(c.St.Ghost, gk+":dec")
			return c.Return(nil)
		}
		if n < 2 {
			return finish()
		}
		i, j := 1, 1
		callLess := func(st *State, th *Thread, i, j int) {
			st.Ghost[gk] = Tuple{BVC(uint64(i), 64), BVC(uint64(j), 64)}
			th.top().IP-- // re-enter after less returns
			nfr := len(th.Frames)
			if succ := e.invoke(st, th, less, []Value{BVC(uint64(j), 64), BVC(uint64(j-1), 64)}, nil, c.Instr, false); succ != nil {
				panic(unsupported("sort: less is a forking intrinsic"))
			}
			if len(th.Frames) > nfr {
				th.top().OnRet = gk + ":ret"
			}
		}
		stv, started := c.St.Ghost[gk]
		if !started {
			callLess(c.St, c.Th, i, j)
			return nil
		}
		tp := stv.(Tuple)
		i, j = int(tp[0].(*Term).U), int(tp[1].(*Term).U)
		var r *Term
		if d, ok := c.St.Ghost[gk+":dec"]; ok {
			r = d.(*Term)
			delete(c.St.Ghost, gk+":dec")
		} else {
			r = c.St.Ghost[gk+":ret"].(*Term)
			if !r.Const {
				// decide the comparison by forking; each side re-enters with the decision recorded
				return c.outcomesNoRet(c.sol2(), []Outcome{
					{Cond: r, Eff: func(st *State) { st.Ghost[gk+":dec"] = True; st.Threads[c.Th.ID].top().IP-- }},
					{Cond: Not(r), Eff: func(st *State) { st.Ghost[gk+":dec"] = False; st.Threads[c.Th.ID].top().IP-- }},
				})
			}
		}
		if r.B {
			a := Ptr{Obj: sl.Obj, Path: []int{sl.Off + j}}
			b := Ptr{Obj: sl.Obj, Path: []int{sl.Off + j - 1}}
			va, vb := c.St.Load(a), c.St.Load(b)
			c.St.Store(a, vb)
			c.St.Store(b, va)
			j--
			if j > 0 {
				callLess(c.St, c.Th, i, j)
				return nil
			}
		}
		i++
		j = i
		if i >= n {
			return finish()
		}
		callLess(c.St, c.Th, i, j)
		return nil
	}
	e.Intr["sort.Slice"] = sorter
	e.Intr["sort.SliceStable"] = sorter
}
