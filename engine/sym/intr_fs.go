package sym

// File-system intrinsics (DESIGN.md 3.2). Grown per obligation.

func registerFS(e *Engine) {
	// os.MkdirAll: directory creation succeeds (I/O faults are outside every quantifier).
	e.Intr["os.MkdirAll"] = func(c *Call) []*State {
		return c.Return(Iface{})
	}
}
