package sym

import (
	"os"
	"fmt"
	"go/types"
	"path/filepath"
	"strconv"
	"strings"
)

// ---------------------------------------------------------------- errors / fmt

func (e *Engine) wrapErrorType() types.Type {
	p := e.Prog.ImportedPackage("fmt")
	if p == nil {
		panic(unsupported("fmt package not loaded"))
	}
	return types.NewPointer(p.Type("wrapError").Type())
}

func (e *Engine) newWrapError(st *State, msg *Term, inner Value) Value {
	id := st.Alloc(&Struct{F: []Value{msg, inner}})
	return Iface{T: e.wrapErrorType(), V: Ptr{Obj: id}}
}

// errorMsg returns the message of an error value when statically known how.
func (e *Engine) errorMsg(st *State, v Iface) (*Term, bool) {
	if v.T == nil {
		return StrC("<nil>"), true
	}
	ts := v.T.String()
	if ts == "*errors.errorString" || ts == "*fmt.wrapError" {
		p := v.V.(Ptr)
		return st.Load(p).(*Struct).F[0].(*Term), true
	}
	return nil, false
}

// fmtValue renders v for %v / %s.
func (e *Engine) fmtValue(st *State, v Value, verb byte) *Term {
	switch x := v.(type) {
	case *Term:
		switch x.Kind {
		case SString:
			if verb == 'q' {
				if x.Const {
					return StrC(strconv.Quote(x.S))
				}
				return StrConcat(StrC("\""), x, StrC("\""))
			}
			return x
		case SBool:
			if x.Const {
				return StrC(fmt.Sprint(x.B))
			}
			return Ite(x, StrC("true"), StrC("false"))
		case SBV:
			if x.Const {
				if verb == 'x' {
					return StrC(fmt.Sprintf("%x", x.U))
				}
				return StrC(fmt.Sprint(x.Signed()))
			}
			if verb != 'x' && x.W == 64 {
				return itoaTerm(st, x)
			}
			return FreshVar("fmt.int", SString, 0)
		}
	case Bytes:
		if x.Hex && verb == 'x' {
			return x.S
		}
		if !x.Hex && (verb == 's' || verb == 'v') {
			return x.S
		}
	case Iface:
		if x.T == nil {
			return StrC("<nil>")
		}
		if m, ok := e.errorMsg(st, x); ok {
			return m
		}
		if b, ok := x.V.(Bytes); ok {
			return e.fmtValue(st, b, verb)
		}
		if t, ok := x.V.(*Term); ok {
			// named string / int types with String() methods are not invoked (over-approx)
			if ms := e.Prog.MethodSets.MethodSet(x.T); ms.Lookup(nil, "String") == nil && ms.Lookup(nil, "Error") == nil {
				return e.fmtValue(st, t, verb)
			}
		}
		return FreshVar("fmt.iface", SString, 0)
	}
	return FreshVar("fmt.val", SString, 0)
}

func (e *Engine) sprintf(st *State, format string, args []Value) (*Term, Value) {
	var parts []*Term
	var wrapped Value
	ai := 0
	i := 0
	lit := strings.Builder{}
	flush := func() {
		if lit.Len() > 0 {
			parts = append(parts, StrC(lit.String()))
			lit.Reset()
		}
	}
	for i < len(format) {
		ch := format[i]
		if ch != '%' {
			lit.WriteByte(ch)
			i++
			continue
		}
		i++
		if i >= len(format) {
			lit.WriteString("%!(NOVERB)")
			break
		}
		// flags / width
		for i < len(format) && strings.IndexByte("+-# 0123456789.", format[i]) >= 0 {
			i++
		}
		if i >= len(format) {
			break
		}
		verb := format[i]
		i++
		if verb == '%' {
			lit.WriteByte('%')
			continue
		}
		if ai >= len(args) {
			lit.WriteString("%!" + string(verb) + "(MISSING)")
			continue
		}
		a := args[ai]
		ai++
		flush()
		switch verb {
		case 'w':
			wrapped = a
			parts = append(parts, e.fmtValue(st, a, 'v'))
		case 'T':
			if iv, ok := a.(Iface); ok && iv.T != nil {
				parts = append(parts, StrC(iv.T.String()))
			} else {
				parts = append(parts, StrC("<nil>"))
			}
		default:
			parts = append(parts, e.fmtValue(st, a, verb))
		}
	}
	flush()
	return StrConcat(parts...), wrapped
}

// variadic []any slice -> values
func (e *Engine) anySlice(st *State, v Value) []Value {
	s, ok := v.(Slice)
	if !ok {
		return nil
	}
	return e.sliceElems(st, s)
}

func registerErrFmt(e *Engine) {
	e.Intr["errors.New"] = func(c *Call) []*State {
		return c.Return(c.E.newErrorString(c.St, c.argTerm(0)))
	}
	e.Intr["fmt.Errorf"] = func(c *Call) []*State {
		f := c.argTerm(0)
		if !f.Const {
			return c.Return(c.E.newErrorString(c.St, FreshVar("errorf", SString, 0)))
		}
		msg, wrapped := c.E.sprintf(c.St, f.S, c.E.anySlice(c.St, c.Args[1]))
		if wrapped != nil {
			if iv, ok := wrapped.(Iface); ok && iv.T != nil {
				return c.Return(c.E.newWrapError(c.St, msg, iv))
			}
		}
		return c.Return(c.E.newErrorString(c.St, msg))
	}
	e.Intr["fmt.Sprintf"] = func(c *Call) []*State {
		f := c.argTerm(0)
		if !f.Const {
			return c.Return(FreshVar("sprintf", SString, 0))
		}
		msg, _ := c.E.sprintf(c.St, f.S, c.E.anySlice(c.St, c.Args[1]))
		return c.Return(msg)
	}
	e.Intr["fmt.Sprint"] = func(c *Call) []*State {
		var parts []*Term
		for _, a := range c.E.anySlice(c.St, c.Args[0]) {
			parts = append(parts, c.E.fmtValue(c.St, a, 'v'))
		}
		return c.Return(StrConcat(parts...))
	}
	noop := func(c *Call) []*State { return c.Return(zeroRet(c)) }
	for _, n := range []string{"fmt.Println", "fmt.Printf", "fmt.Print", "fmt.Fprintf", "fmt.Fprintln", "fmt.Fprint", "log.Printf", "log.Println", "log.Print",
		"(*log.Logger).Printf", "(*log.Logger).Println", "log.Fatalf", "log.Fatal"} {
		e.Intr[n] = noop
	}
	e.Intr["errors.Unwrap"] = func(c *Call) []*State {
		iv := c.Args[0].(Iface)
		if iv.T != nil && iv.T.String() == "*fmt.wrapError" {
			return c.Return(c.St.Load(iv.V.(Ptr)).(*Struct).F[1])
		}
		return c.Return(Iface{})
	}
	e.Intr["errors.Is"] = func(c *Call) []*State {
		err := c.Args[0].(Iface)
		target := c.Args[1].(Iface)
		res := False
		for depth := 0; depth < 10; depth++ {
			if err.T == nil {
				break
			}
			if types.Comparable(err.T) {
				res = Or(res, c.E.valEq(c.St, err, target))
			}
			if err.T.String() == "*fmt.wrapError" {
				err = c.St.Load(err.V.(Ptr)).(*Struct).F[1].(Iface)
				continue
			}
			ms := c.E.Prog.MethodSets.MethodSet(err.T)
			if ms.Lookup(nil, "Unwrap") != nil || ms.Lookup(nil, "Is") != nil {
				panic(unsupported("errors.Is on type with Unwrap/Is method: " + err.T.String()))
			}
			break
		}
		return c.Return(res)
	}
	e.Intr["errors.As"] = func(c *Call) []*State {
		err := c.Args[0].(Iface)
		tgt := c.Args[1].(Iface) // pointer to target variable
		tp := tgt.V.(Ptr)
		want := tgt.T.(*types.Pointer).Elem()
		for depth := 0; depth < 10 && err.T != nil; depth++ {
			match := false
			if types.IsInterface(want) {
				match = types.Implements(err.T, want.Underlying().(*types.Interface))
			} else {
				match = types.Identical(err.T, want)
			}
			if match {
				if types.IsInterface(want) {
					c.St.Store(tp, err)
				} else {
					c.St.Store(tp, err.V)
				}
				return c.Return(True)
			}
			if err.T.String() == "*fmt.wrapError" {
				err = c.St.Load(err.V.(Ptr)).(*Struct).F[1].(Iface)
				continue
			}
			break
		}
		return c.Return(False)
	}
}

func zeroRet(c *Call) Value {
	res := c.Fn.Signature.Results()
	switch res.Len() {
	case 0:
		return Tuple{}
	case 1:
		return Zero(res.At(0).Type())
	}
	t := make(Tuple, res.Len())
	for i := range t {
		t[i] = Zero(res.At(i).Type())
	}
	return t
}

// ---------------------------------------------------------------- strings

func registerStrings(e *Engine) {
	e.Intr["strings.HasPrefix"] = func(c *Call) []*State { return c.Return(StrPrefixOf(c.argTerm(1), c.argTerm(0))) }
	e.Intr["strings.HasSuffix"] = func(c *Call) []*State { return c.Return(StrSuffixOf(c.argTerm(1), c.argTerm(0))) }
	e.Intr["strings.Contains"] = func(c *Call) []*State { return c.Return(StrContains(c.argTerm(0), c.argTerm(1))) }
	e.Intr["strings.ContainsAny"] = func(c *Call) []*State {
		chars := c.argTerm(1)
		if !chars.Const {
			panic(unsupported("strings.ContainsAny with a symbolic character set"))
		}
		var alts []*Term
		for i := 0; i < len(chars.S); i++ {
			if chars.S[i] >= 0x80 {
				panic(unsupported("strings.ContainsAny with a non-ASCII character set"))
			}
			alts = append(alts, StrContains(c.argTerm(0), StrC(chars.S[i:i+1])))
		}
		if len(alts) == 0 {
			return c.Return(False)
		}
		return c.Return(Or(alts...))
	}
	e.Intr["strings.Index"] = func(c *Call) []*State {
		return c.Return(IntToBV(StrIndexOf(c.argTerm(0), c.argTerm(1), IntC(0)), 64))
	}
	e.Intr["strings.TrimPrefix"] = func(c *Call) []*State {
		s, p := c.argTerm(0), c.argTerm(1)
		has := StrPrefixOf(p, s)
		if has.Const {
			if !has.B {
				return c.Return(s)
			}
		}
		rest := StrSubstr(s, StrLenInt(p), intArith("-", StrLenInt(s), StrLenInt(p)))
		return c.Return(Ite(has, rest, s))
	}
	e.Intr["strings.TrimSuffix"] = func(c *Call) []*State {
		s, p := c.argTerm(0), c.argTerm(1)
		has := StrSuffixOf(p, s)
		if has.Const && !has.B {
			return c.Return(s)
		}
		rest := StrSubstr(s, IntC(0), intArith("-", StrLenInt(s), StrLenInt(p)))
		return c.Return(Ite(has, rest, s))
	}
	e.Intr["strings.ReplaceAll"] = func(c *Call) []*State {
		r := StrReplaceAll(c.argTerm(0), c.argTerm(1), c.argTerm(2))
		if r == nil {
			panic(unsupported("strings.ReplaceAll with empty old"))
		}
		return c.Return(r)
	}
	e.Intr["strings.Replace"] = func(c *Call) []*State {
		n := c.argTerm(3)
		if !n.Const {
			panic(unsupported("strings.Replace symbolic n"))
		}
		s, old, nw := c.argTerm(0), c.argTerm(1), c.argTerm(2)
		if s.Const && old.Const && nw.Const {
			return c.Return(StrC(strings.Replace(s.S, old.S, nw.S, int(n.Signed()))))
		}
		switch n.Signed() {
		case 0:
			return c.Return(s)
		case 1:
			return c.Return(StrReplace(s, old, nw))
		case -1:
			return c.Return(StrReplaceAll(s, old, nw))
		}
		panic(unsupported("strings.Replace n>1 symbolic"))
	}
	e.Intr["strings.Join"] = func(c *Call) []*State {
		elems := c.E.sliceElems(c.St, c.Args[0].(Slice))
		sep := c.argTerm(1)
		var parts []*Term
		for i, el := range elems {
			if i > 0 {
				parts = append(parts, sep)
			}
			parts = append(parts, el.(*Term))
		}
		return c.Return(StrConcat(parts...))
	}
	e.Intr["strings.Repeat"] = func(c *Call) []*State {
		n := c.argTerm(1)
		if !n.Const {
			panic(unsupported("strings.Repeat symbolic count"))
		}
		var parts []*Term
		for i := int64(0); i < n.Signed(); i++ {
			parts = append(parts, c.argTerm(0))
		}
		return c.Return(StrConcat(parts...))
	}
	e.Intr["strings.Compare"] = func(c *Call) []*State {
		a, b := c.argTerm(0), c.argTerm(1)
		return c.Return(Ite(Eq(a, b), BVC(0, 64), Ite(StrLt(a, b), BVC(^uint64(0), 64), BVC(1, 64))))
	}
	e.Intr["strings.EqualFold"] = func(c *Call) []*State {
		a, b := c.argTerm(0), c.argTerm(1)
		if a.Const && b.Const {
			return c.Return(BoolC(strings.EqualFold(a.S, b.S)))
		}
		la, sa, oka := c.E.lowerASCII(c, a)
		if !oka {
			return sa
		}
		lb, sb, okb := c.E.lowerASCII(c, b)
		if !okb {
			return sb
		}
		return c.Return(Eq(la, lb))
	}
	e.Intr["strings.ToLower"] = func(c *Call) []*State {
		l, succ, ok := c.E.lowerASCII(c, c.argTerm(0))
		if !ok {
			return succ
		}
		return c.Return(l)
	}
	e.Intr["strings.ToUpper"] = func(c *Call) []*State {
		s := c.argTerm(0)
		if s.Const {
			return c.Return(StrC(strings.ToUpper(s.S)))
		}
		r, succ, ok := c.E.caseASCII(c, s, true)
		if !ok {
			return succ
		}
		return c.Return(r)
	}
	e.Intr["strings.TrimSpace"] = func(c *Call) []*State {
		return c.Return(c.E.trimSet(c.St, c.argTerm(0), " \t\n\v\f\r", true, true))
	}
	e.Intr["strings.Trim"] = func(c *Call) []*State {
		return c.Return(c.E.trimSet(c.St, c.argTerm(0), c.constStr(1), true, true))
	}
	e.Intr["strings.TrimLeft"] = func(c *Call) []*State {
		return c.Return(c.E.trimSet(c.St, c.argTerm(0), c.constStr(1), true, false))
	}
	e.Intr["strings.TrimRight"] = func(c *Call) []*State {
		return c.Return(c.E.trimSet(c.St, c.argTerm(0), c.constStr(1), false, true))
	}
	e.Intr["strings.Split"] = func(c *Call) []*State { return c.E.splitN(c, c.argTerm(0), c.argTerm(1), -1) }
	e.Intr["strings.SplitN"] = func(c *Call) []*State {
		n := c.argTerm(2)
		if !n.Const {
			panic(unsupported("SplitN symbolic n"))
		}
		return c.E.splitN(c, c.argTerm(0), c.argTerm(1), int(n.Signed()))
	}
	e.Intr["strings.Fields"] = func(c *Call) []*State { return c.E.fields(c, c.argTerm(0)) }
	// strings.Cut(s, sep): split around the first sep
	e.Intr["strings.Cut"] = func(c *Call) []*State {
		s0, sep := c.argTerm(0), c.argTerm(1)
		if s0.Const && sep.Const {
			b, a, f := strings.Cut(s0.S, sep.S)
			return c.Return(Tuple{StrC(b), StrC(a), BoolC(f)})
		}
		i := StrIndexOf(s0, sep, IntC(0))
		found := intCmp(">=", i, IntC(0))
		n := StrLenInt(s0)
		after := intArith("+", i, StrLenInt(sep))
		return c.Return(Tuple{Ite(found, StrSubstr(s0, IntC(0), i), s0), Ite(found, StrSubstr(s0, after, intArith("-", n, after)), StrC("")), found})
	}
	// strconv.Quote over the ASCII alphabet: exact per character (length concretised, <= 8)
	e.Intr["strconv.Quote"] = func(c *Call) []*State {
		s0 := c.argTerm(0)
		if s0.Const {
			return c.Return(StrC(strconv.Quote(s0.S)))
		}
		n, succ, ok := c.E.concretize(c.St, c.sol2(), StrLen(s0, 64), 0, 8)
		if !ok {
			for _, st := range succ {
				st.Threads[c.Th.ID].top().IP--
			}
			return succ
		}
		hexd := func(d *Term) *Term { // one hex digit (Int 0..15) as a string
			return StrFromCode(Ite(intCmp("<", d, IntC(10)), intArith("+", d, IntC(48)), intArith("+", d, IntC(87))))
		}
		parts := []*Term{StrC("\"")}
		for i := 0; i < int(n); i++ {
			ch, _ := strCharAt(s0, i)
			code := StrToCode(ch)
			esc := StrConcat(StrC("\\x"), hexd(intArith("div", code, IntC(16))), hexd(intArith("mod", code, IntC(16))))
			q := Ite(Or(intCmp("<", code, IntC(0x20)), Eq(code, IntC(0x7f))), esc, ch)
			for _, m := range [][2]string{{"\a", "\\a"}, {"\b", "\\b"}, {"\f", "\\f"}, {"\n", "\\n"}, {"\r", "\\r"}, {"\t", "\\t"}, {"\v", "\\v"}, {"\\", "\\\\"}, {"\"", "\\\""}} {
				q = Ite(Eq(ch, StrC(m[0])), StrC(m[1]), q)
			}
			parts = append(parts, q)
		}
		parts = append(parts, StrC("\""))
		return c.Return(StrConcat(parts...))
	}
	e.Intr["strconv.Itoa"] = func(c *Call) []*State {
		x := c.argTerm(0)
		if x.Const {
			return c.Return(StrC(strconv.FormatInt(x.Signed(), 10)))
		}
		return c.Return(itoaTerm(c.St, x))
	}
	e.Intr["strconv.Atoi"] = func(c *Call) []*State {
		s := c.argTerm(0)
		if s.Const {
			v, err := strconv.Atoi(s.S)
			if err != nil {
				return c.Return(Tuple{BVC(0, 64), c.E.newErrorString(c.St, StrC(err.Error()))})
			}
			return c.Return(Tuple{BVC(uint64(v), 64), Iface{}})
		}
		v := FreshVar("atoi", SBV, 64)
		return c.Outcomes(c.sol2(), []Outcome{
			{Cond: True, Ret: Tuple{v, Iface{}}},
			{Cond: True, Ret: Tuple{BVC(0, 64), c.E.newErrorString(c.St, StrC("strconv.Atoi: invalid syntax"))}},
		})
	}
	// strings.Builder
	e.Intr["(*strings.Builder).WriteString"] = func(c *Call) []*State {
		k := "sb:" + ptrKey(c.Args[0].(Ptr))
		cur, _ := c.St.Ghost[k].(*Term)
		if cur == nil {
			cur = StrC("")
		}
		c.St.Ghost[k] = StrConcat(cur, c.argTerm(1))
		return c.Return(Tuple{StrLen(c.argTerm(1), 64), Iface{}})
	}
	e.Intr["(*strings.Builder).WriteByte"] = func(c *Call) []*State {
		k := "sb:" + ptrKey(c.Args[0].(Ptr))
		cur, _ := c.St.Ghost[k].(*Term)
		if cur == nil {
			cur = StrC("")
		}
		c.St.Ghost[k] = StrConcat(cur, StrFromCode(BVToInt(BVResize(c.argTerm(1), 64, false))))
		return c.Return(Iface{})
	}
	e.Intr["unicode/utf8.ValidString"] = func(c *Call) []*State {
		if !ByteMode {
			return c.Return(True) // ASCII alphabet
		}
		return c.Return(StrInRe(c.argTerm(0), utf8ValidRe()))
	}
	e.Intr["(*strings.Builder).WriteRune"] = func(c *Call) []*State {
		k := "sb:" + ptrKey(c.Args[0].(Ptr))
		cur, _ := c.St.Ghost[k].(*Term)
		if cur == nil {
			cur = StrC("")
		}
		if ByteMode {
			enc := utf8Encode(c.argTerm(1))
			c.St.Ghost[k] = StrConcat(cur, enc)
			return c.Return(Tuple{StrLen(enc, 64), Iface{}})
		}
		c.St.Ghost[k] = StrConcat(cur, StrFromCode(BVToInt(BVResize(c.argTerm(1), 64, true))))
		return c.Return(Tuple{BVC(1, 64), Iface{}})
	}
	e.Intr["(*strings.Builder).String"] = func(c *Call) []*State {
		cur, _ := c.St.Ghost["sb:"+ptrKey(c.Args[0].(Ptr))].(*Term)
		if cur == nil {
			cur = StrC("")
		}
		return c.Return(cur)
	}
	e.Intr["(*strings.Builder).Len"] = func(c *Call) []*State {
		cur, _ := c.St.Ghost["sb:"+ptrKey(c.Args[0].(Ptr))].(*Term)
		if cur == nil {
			cur = StrC("")
		}
		return c.Return(StrLen(cur, 64))
	}
	e.Intr["(*strings.Builder).Grow"] = func(c *Call) []*State { return c.Return(nil) }
	e.Intr["(*strings.Builder).Reset"] = func(c *Call) []*State {
		delete(c.St.Ghost, "sb:"+ptrKey(c.Args[0].(Ptr)))
		return c.Return(nil)
	}
	// path/filepath (POSIX)
	fpJoin := func(c *Call) []*State {
		elems := c.E.sliceElems(c.St, c.Args[0].(Slice))
		allc := true
		var ss []string
		for _, el := range elems {
			t := el.(*Term)
			if !t.Const {
				allc = false
			} else {
				ss = append(ss, t.S)
			}
		}
		if allc {
			return c.Return(StrC(filepath.Join(ss...)))
		}
		// symbolic parts: assume they are clean relative components (no "/", not "", not "." / "..")
		// and concrete parts are cleaned individually. Result = join with "/".
		var parts []*Term
		for i, el := range elems {
			t := el.(*Term)
			if t.Const {
				if t.S == "" {
					continue
				}
				cl := filepath.Clean(t.S)
				if len(parts) > 0 {
					cl = strings.TrimPrefix(cl, "/")
					parts = append(parts, StrC("/"))
				}
				parts = append(parts, StrC(cl))
				continue
			}
			_ = i
			c.St.Ghost["assume:filepath.Join-clean-component"] = True
			if len(parts) > 0 {
				parts = append(parts, StrC("/"))
			}
			parts = append(parts, t)
		}
		return c.Return(StrConcat(parts...))
	}
	e.Intr["path/filepath.Join"] = fpJoin
	e.Intr["path.Join"] = fpJoin
	e.Intr["path/filepath.Abs"] = func(c *Call) []*State {
		p := c.argTerm(0)
		if !p.Const {
			panic(unsupported("filepath.Abs with symbolic path"))
		}
		if filepath.IsAbs(p.S) {
			return c.Return(Tuple{StrC(filepath.Clean(p.S)), Iface{}})
		}
		return c.Return(Tuple{StrC(filepath.Join("/cwd", p.S)), Iface{}})
	}
	e.Intr["path/filepath.IsAbs"] = func(c *Call) []*State { return c.Return(StrPrefixOf(StrC("/"), c.argTerm(0))) }
	e.Intr["path/filepath.Base"] = func(c *Call) []*State {
		s := c.argTerm(0)
		if s.Const {
			return c.Return(StrC(filepath.Base(s.S)))
		}
		return c.Return(c.E.baseSym(c.St, s))
	}
	e.Intr["path/filepath.Dir"] = func(c *Call) []*State {
		s := c.argTerm(0)
		if s.Const {
			return c.Return(StrC(filepath.Dir(s.S)))
		}
		return c.Return(c.E.dirSym(c.St, s))
	}
	e.Intr["path/filepath.Ext"] = func(c *Call) []*State {
		s := c.argTerm(0)
		if s.Const {
			return c.Return(StrC(filepath.Ext(s.S)))
		}
		return c.Return(c.E.extSym(c.St, s))
	}
	e.Intr["path.Base"] = e.Intr["path/filepath.Base"]
	e.Intr["path.Dir"] = e.Intr["path/filepath.Dir"]
	e.Intr["path.Ext"] = e.Intr["path/filepath.Ext"]
	e.Intr["path/filepath.Clean"] = func(c *Call) []*State {
		s := c.argTerm(0)
		if s.Const {
			return c.Return(StrC(filepath.Clean(s.S)))
		}
		c.St.Ghost["assume:filepath.Clean-identity-on-symbolic"] = True
		return c.Return(s)
	}
}

// itoaTerm: decimal rendering of a symbolic signed 64-bit term as an uninterpreted
// function of the value whose result is a well-formed decimal numeral (non-empty,
// digits and '-' only, at most 20 bytes). Exact digits are not tracked (bv2nat/str.from_int
// stall the string solvers).
func itoaTerm(st *State, x *Term) *Term {
	DeclareFun("int_str", "(declare-fun |int_str| ((_ BitVec 64)) String)")
	r := App("int_str", SString, 0, x)
	key := "int_str:" + x.SMT()
	if _, ok := st.Ghost[key]; !ok {
		st.Ghost[key] = True
		st.Assume(StrInRe(r, Raw(SRegLan, 0, `(re.+ (re.union (re.range "0" "9") (str.to_re "-")))`)))
		st.Assume(intCmp("<=", StrLenInt(r), IntC(20)))
	}
	return r
}

func BVToIntNat(b *Term) *Term {
	if f := intForm(b); f != nil {
		return f
	}
	return newTerm(&Term{Kind: SInt, Op: "bv2nat", Args: []*Term{b}})
}

// lowerASCII / caseASCII: per-character case mapping; needs concrete length.
func (e *Engine) lowerASCII(c *Call, s *Term) (*Term, []*State, bool) { return e.caseASCII(c, s, false) }

func (e *Engine) caseASCII(c *Call, s *Term, upper bool) (*Term, []*State, bool) {
	if s.Const {
		if upper {
			return StrC(strings.ToUpper(s.S)), nil, true
		}
		return StrC(strings.ToLower(s.S)), nil, true
	}
	if s.Op == "app:int_str" {
		return s, nil, true // decimal numerals have no letters
	}
	key := fmt.Sprintf("case:%v:%s", upper, s.SMT())
	if v, ok := c.St.Ghost[key]; ok {
		return v.(*Term), nil, true
	}
	n, succ, ok := e.concretize(c.St, c.sol2(), StrLen(s, 64), 0, 32)
	if !ok {
		for _, st := range succ {
			st.Threads[c.Th.ID].top().IP--
		}
		return nil, succ, false
	}
	lo, hi, delta := int64(65), int64(90), int64(32)
	if upper {
		lo, hi, delta = 97, 122, -32
	}
	var parts []*Term
	for i := 0; i < int(n); i++ {
		ch := StrAt(s, IntC(int64(i)))
		code := StrToCode(ch)
		in := newTerm(&Term{Kind: SBool, Op: "and", Args: []*Term{intCmp("<=", IntC(lo), code), intCmp("<=", code, IntC(hi))}})
		mapped := StrFromCode(intArith("+", code, IntC(delta)))
		parts = append(parts, Ite(in, mapped, ch))
	}
	r := StrConcat(parts...)
	c.St.Ghost[key] = r
	return r, nil, true
}

func charClassRe(set string) string {
	var alts []string
	for i := 0; i < len(set); i++ {
		alts = append(alts, "(str.to_re "+smtStrLit(string(set[i]))+")")
	}
	if len(alts) == 1 {
		return alts[0]
	}
	return "(re.union " + strings.Join(alts, " ") + ")"
}

// trimSet models strings.Trim*/TrimSpace relationally:
//   s = pre ++ r ++ post, pre,post ∈ set*, r does not start / end with a set char.
func (e *Engine) trimSet(st *State, s *Term, set string, left, right bool) *Term {
	if s.Const {
		switch {
		case left && right:
			return StrC(strings.Trim(s.S, set))
		case left:
			return StrC(strings.TrimLeft(s.S, set))
		default:
			return StrC(strings.TrimRight(s.S, set))
		}
	}
	if s.Op == "app:int_str" && !strings.ContainsAny(set, "-0123456789") {
		return s // decimal numerals contain only digits and '-'
	}
	key := fmt.Sprintf("trim:%v%v:%s:%s", left, right, set, s.SMT())
	if v, ok := st.Ghost[key]; ok {
		return v.(*Term)
	}
	cls := charClassRe(set)
	r := FreshVar("trim.r", SString, 0)
	pre, post := StrC(""), StrC("")
	if left {
		pre = FreshVar("trim.pre", SString, 0)
		st.Assume(StrInRe(pre, Raw(SRegLan, 0, "(re.* "+cls+")")))
	}
	if right {
		post = FreshVar("trim.post", SString, 0)
		st.Assume(StrInRe(post, Raw(SRegLan, 0, "(re.* "+cls+")")))
	}
	st.Assume(Eq(s, StrConcat(pre, r, post)))
	notStart := Raw(SRegLan, 0, "(re.++ "+cls+" re.all)")
	notEnd := Raw(SRegLan, 0, "(re.++ re.all "+cls+")")
	if left {
		st.Assume(Not(StrInRe(r, notStart)))
	}
	if right {
		st.Assume(Not(StrInRe(r, notEnd)))
	}
	st.Ghost[key] = r
	return r
}

// splitN models strings.Split/SplitN by forking on the number of separators
// (bounded by Cfg-independent constant S=3; more is cut).
const splitMax = 3

func (e *Engine) splitN(c *Call, s, sep *Term, n int) []*State {
	st := c.St
	mk := func(s2 *State, parts []*Term) Value {
		vals := make([]Value, len(parts))
		for i, p := range parts {
			vals[i] = p
		}
		return e.newSlice(s2, vals)
	}
	if s.Const && sep.Const {
		var ps []string
		if n < 0 {
			ps = strings.Split(s.S, sep.S)
		} else {
			ps = strings.SplitN(s.S, sep.S, n)
		}
		if ps == nil {
			return c.Return(Slice{})
		}
		var parts []*Term
		for _, p := range ps {
			parts = append(parts, StrC(p))
		}
		return c.Return(mk(st, parts))
	}
	if n == 0 {
		return c.Return(Slice{})
	}
	if !sep.Const || sep.S == "" {
		panic(unsupported("strings.Split with symbolic/empty separator"))
	}
	memoKey := fmt.Sprintf("split:%d:%s:%s", n, sep.S, s.SMT())
	if v, ok := st.Ghost[memoKey]; ok {
		// same string split again on this path: same decomposition, no new fork
		var parts []*Term
		for _, p := range v.(Tuple) {
			parts = append(parts, p.(*Term))
		}
		return c.Return(mk(st, parts))
	}
	maxSeps := splitMax
	if n > 0 && n-1 < maxSeps {
		maxSeps = n - 1
	}
	var outs []Outcome
	for k := 0; k <= maxSeps; k++ {
		k := k
		// k separators => k+1 pieces; pieces 0..k-1 don't contain sep; last piece
		// doesn't contain sep unless limited by n
		pieces := make([]*Term, k+1)
		var cat []*Term
		conds := []*Term{}
		for i := range pieces {
			pieces[i] = FreshVar(fmt.Sprintf("split.p%d", i), SString, 0)
			if i > 0 {
				cat = append(cat, sep)
			}
			cat = append(cat, pieces[i])
			lastUnlimited := i == k && n > 0 && k == n-1
			if !lastUnlimited {
				// piece_i ++ sep-prefix must not create an earlier match: for single-char sep
				// "does not contain sep" is exact; for longer seps it is the leftmost-match condition
				if len(sep.S) == 1 {
					conds = append(conds, Not(StrContains(pieces[i], sep)))
				} else if i < k {
					// leftmost: sep not in piece ++ sep[:len-1]
					conds = append(conds, Not(StrContains(StrConcat(pieces[i], StrC(sep.S[:len(sep.S)-1])), sep)))
				} else {
					conds = append(conds, Not(StrContains(pieces[i], sep)))
				}
			}
		}
		conds = append(conds, Eq(s, StrConcat(cat...)))
		outs = append(outs, Outcome{Cond: And(conds...), Eff: func(s2 *State) {
			fr := s2.Threads[c.Th.ID].top()
			memo := make(Tuple, len(pieces))
			for i, p := range pieces {
				memo[i] = p
			}
			s2.Ghost[memoKey] = memo
			if c.RetTo != nil {
				e.setLocal(fr, c.RetTo, mk(s2, pieces))
			}
		}})
	}
	// more separators than the bound: cut
	res := c.outcomesNoRet(c.sol2(), outs)
	return res
}

// outcomesNoRet is like Outcomes but the Eff closures set the return value.
func (c *Call) outcomesNoRet(sol *Solver, outs []Outcome) []*State {
	var feas []Outcome
	for _, o := range outs {
		if c.E.Feasible(sol, c.St, o.Cond) {
			feas = append(feas, o)
		}
	}
	if len(feas) == 0 {
		if os.Getenv("GOSYM_DEBUG") != "" {
			fmt.Fprintf(os.Stderr, "no feasible outcome in %s at %s (%d outcomes)\n", c.Name, c.E.curPos(c.St), len(outs))
			for _, o := range outs {
				fmt.Fprintf(os.Stderr, "   cond: %s\n", o.Cond.SMT())
			}
		}
		c.E.endPath(c.St, "infeasible")
		return []*State{}
	}
	var res []*State
	for i, o := range feas {
		st := c.St
		if i < len(feas)-1 {
			st = c.St.Clone()
		}
		st.Assume(o.Cond)
		o.Eff(st)
		res = append(res, st)
	}
	if len(res) == 1 && res[0] == c.St {
		return nil
	}
	return res
}

// fields models strings.Fields: 0..splitMax+1 fields separated by ASCII whitespace runs.
func (e *Engine) fields(c *Call, s *Term) []*State {
	if s.Const {
		ps := strings.Fields(s.S)
		vals := make([]Value, len(ps))
		for i, p := range ps {
			vals[i] = StrC(p)
		}
		return c.Return(e.newSlice(c.St, vals))
	}
	ws := charClassRe(" \t\n\v\f\r")
	wsStar := Raw(SRegLan, 0, "(re.* "+ws+")")
	wsPlus := Raw(SRegLan, 0, "(re.+ "+ws+")")
	nonWs := Raw(SRegLan, 0, "(re.+ (re.diff re.allchar "+ws+"))")
	var outs []Outcome
	for k := 0; k <= splitMax+1; k++ {
		fieldsV := make([]*Term, k)
		var cat []*Term
		conds := []*Term{}
		lead := FreshVar("fields.ws", SString, 0)
		conds = append(conds, StrInRe(lead, wsStar))
		cat = append(cat, lead)
		for i := 0; i < k; i++ {
			fieldsV[i] = FreshVar(fmt.Sprintf("fields.f%d", i), SString, 0)
			conds = append(conds, StrInRe(fieldsV[i], nonWs))
			cat = append(cat, fieldsV[i])
			g := FreshVar("fields.ws", SString, 0)
			if i < k-1 {
				conds = append(conds, StrInRe(g, wsPlus))
			} else {
				conds = append(conds, StrInRe(g, wsStar))
			}
			cat = append(cat, g)
		}
		conds = append(conds, Eq(s, StrConcat(cat...)))
		fv := fieldsV
		outs = append(outs, Outcome{Cond: And(conds...), Eff: func(s2 *State) {
			vals := make([]Value, len(fv))
			for i, p := range fv {
				vals[i] = p
			}
			if c.RetTo != nil {
				e.setLocal(s2.Threads[c.Th.ID].top(), c.RetTo, e.newSlice(s2, vals))
			}
		}})
	}
	return c.outcomesNoRet(c.sol2(), outs)
}

// baseSym: filepath.Base for symbolic path assumed clean & without trailing slash:
// the part after the last "/".
func (e *Engine) baseSym(st *State, s *Term) *Term {
	key := "base:" + s.SMT()
	if v, ok := st.Ghost[key]; ok {
		return v.(*Term)
	}
	b := FreshVar("base", SString, 0)
	d := FreshVar("basedir", SString, 0)
	// s = d ++ b, b has no "/", d is "" or ends with "/"
	st.Assume(Eq(s, StrConcat(d, b)))
	st.Assume(Not(StrContains(b, StrC("/"))))
	st.Assume(Or(Eq(d, StrC("")), StrSuffixOf(StrC("/"), d)))
	st.Assume(Not(Eq(b, StrC(""))))
	st.Ghost["assume:filepath.Base-clean-nonempty"] = True
	st.Ghost[key] = b
	st.Ghost["dirof:"+s.SMT()] = d
	return b
}

func (e *Engine) dirSym(st *State, s *Term) *Term {
	e.baseSym(st, s)
	d := st.Ghost["dirof:"+s.SMT()].(*Term)
	// Dir strips the trailing slash unless root; assume non-root dir
	key := "dir:" + s.SMT()
	if v, ok := st.Ghost[key]; ok {
		return v.(*Term)
	}
	r := FreshVar("dir", SString, 0)
	st.Assume(Or(And(Eq(d, StrC("")), Eq(r, StrC("."))), And(Eq(d, StrC("/")), Eq(r, StrC("/"))),
		And(Not(Eq(d, StrC(""))), Not(Eq(d, StrC("/"))), Eq(d, StrConcat(r, StrC("/"))))))
	st.Ghost[key] = r
	return r
}

func (e *Engine) extSym(st *State, s *Term) *Term {
	key := "ext:" + s.SMT()
	if v, ok := st.Ghost[key]; ok {
		return v.(*Term)
	}
	// ext = "" if no "." in last element, else suffix starting at last "."
	ext := FreshVar("ext", SString, 0)
	stem := FreshVar("stem", SString, 0)
	st.Assume(Eq(s, StrConcat(stem, ext)))
	noDotSlash := func(t *Term) *Term { return And(Not(StrContains(t, StrC("."))), Not(StrContains(t, StrC("/")))) }
	rest := FreshVar("extrest", SString, 0)
	st.Assume(Or(
		And(Eq(ext, StrC("")), Raw(SBool, 0, "(not (str.in_re "+s.SMT()+" (re.++ re.all (str.to_re \".\") (re.* (re.diff re.allchar (re.union (str.to_re \"/\") (str.to_re \".\")))))))", s)),
		And(Eq(ext, StrConcat(StrC("."), rest)), noDotSlash(rest)),
	))
	st.Ghost[key] = ext
	return ext
}
