package sym

import (
	"fmt"
	"hash/fnv"
	"sort"
	"strings"
	"sync/atomic"

	"golang.org/x/tools/go/ssa"
)

// spawn creates a new thread running cl(args).
func (e *Engine) spawn(st *State, th *Thread, cl *Closure, args []Value, sol *Solver) ([]*State, bool) {
	nt := &Thread{ID: len(st.Threads), Name: fmt.Sprintf("go%d", len(st.Threads))}
	st.Threads = append(st.Threads, nt)
	if cl == nil || cl.Fn == nil {
		panic(unsupported("go of builtin/nil"))
	}
	if h, ok := e.lookupIntrinsic(cl.Fn, cl.Fn.String()); ok {
		_ = h
		panic(unsupported("go of intrinsic " + cl.Fn.String()))
	}
	e.pushFrame(st, nt, cl.Fn, args, cl.Binds, nil)
	st.Events = append(st.Events, Event{Kind: "go", Thr: th.ID, Args: []Value{BVC(uint64(nt.ID), 64)}})
	return nil, true
}

// threadEnded is called when th finished (normally or by panic).
func (e *Engine) threadEnded(st *State, th *Thread, sol *Solver) ([]*State, bool) {
	if th.Panic != nil {
		e.recordViolation(st, sol, &Violation{Kind: "panic", Label: th.Panic.Kind, Pos: th.Panic.Pos, Fn: th.Panic.Fn,
			Msg: th.Panic.Msg + " | stack: " + strings.Join(th.Panic.Stack, " <- "), Model: e.modelOrNil(sol, st)})
		e.endPath(st, "panic")
		return []*State{}, false
	}
	if th.ID == 0 {
		e.endPath(st, "")
		return []*State{}, false
	}
	return e.schedule(st, sol)
}

func (e *Engine) modelOrNil(sol *Solver, st *State) []NondetVal {
	if sol == nil {
		return nil
	}
	m, _ := e.Model(sol, st)
	return m
}

// canProceed re-evaluates a blocked thread's condition.
func (e *Engine) canProceed(st *State, th *Thread) bool {
	b := th.Block
	if b == nil {
		return true
	}
	switch b.Kind {
	case "mutex":
		return !e.mutexLocked(st, b.Ptr)
	case "rlock":
		return !e.mutexWLocked(st, b.Ptr)
	case "wg":
		return e.wgZero(st, b.Ptr)
	case "recv":
		co := st.Heap[b.Obj].(*ChanObj)
		return len(co.Buf) > 0 || co.Closed || len(co.SendQ) > 0
	case "send":
		co := st.Heap[b.Obj].(*ChanObj)
		if co.Closed {
			return true
		}
		if co.Cap > 0 {
			return len(co.Buf) < co.Cap
		}
		// unbuffered: proceeds when a receiver took our value (removed from SendQ)
		for _, w := range co.SendQ {
			if w.Thread == th.ID {
				return false
			}
		}
		return true
	case "select":
		return e.selectReady(st, th, b.Aux.([]selCase))
	case "join":
		return st.Threads[b.Obj].Status == TDone
	case "pipe-drain": // writer on a full pipe: proceeds once a reader drains it
		return st.Ghost[fmt.Sprintf("pipedrain:%d", b.Obj)] != nil
	case "pipe-closed": // io.Copy from a pipe: returns once the write end is closed
		return st.Ghost[fmt.Sprintf("pipeclosed:%d", b.Obj)] != nil
	case "cond":
		return false // woken explicitly
	}
	return false
}

// schedule picks the next thread to run.
func (e *Engine) schedule(st *State, sol *Solver) ([]*State, bool) {
	// 1. wake blocked threads whose condition holds
	for _, t := range st.Threads {
		if t.Status == TBlocked && t.Block != nil && t.Block.Kind != "sleep" && t.Block.Kind != "event" && e.canProceed(st, t) {
			t.Status = TRunnable
			t.Block = nil
		}
	}
	n := len(st.Threads)
	var cands []int
	for k := 1; k <= n; k++ {
		i := (st.Cur + k) % n
		if st.Threads[i].Status == TRunnable {
			cands = append(cands, i)
		}
	}
	if len(cands) > 0 {
		return e.pick(st, sol, cands)
	}
	// 2. quiescent: sleepers / events
	var sleepers, events []int
	for k := 1; k <= n; k++ {
		i := (st.Cur + k) % n
		t := st.Threads[i]
		if t.Status == TBlocked && t.Block != nil {
			switch t.Block.Kind {
			case "sleep":
				sleepers = append(sleepers, i)
			case "event":
				events = append(events, i)
			}
		}
	}
	timers := e.armedTimers(st)
	if len(sleepers) == 0 && len(events) == 0 && len(timers) == 0 {
		allDone := true
		for _, t := range st.Threads {
			if t.Status != TDone {
				allDone = false
			}
		}
		if allDone {
			e.endPath(st, "")
			return []*State{}, false
		}
		e.recordViolation(st, sol, &Violation{Kind: "deadlock", Label: "deadlock", Msg: e.blockedSummary(st), Model: e.modelOrNil(sol, st), Fn: e.blockedFns(st)})
		e.endPath(st, "deadlock")
		return []*State{}, false
	}
	sig := ""
	if len(sleepers) > 0 {
		sig = e.signature(st)
	}
	// sleepers that saw a change since they went to sleep run first (deterministic)
	var changed []int
	for _, i := range sleepers {
		if st.Threads[i].LastSig != sig {
			changed = append(changed, i)
		}
	}
	if len(changed) > 0 {
		// optionally delay them in favour of an event
		alts := changed
		if len(events)+len(timers) > 0 && st.Delays < e.Cfg.MaxDelays {
			return e.pickQuiescent(st, sol, changed, events, timers, true)
		}
		return e.wake(st, sol, alts[0])
	}
	if len(events)+len(timers) > 0 {
		return e.pickQuiescent(st, sol, nil, events, timers, false)
	}
	// only unchanged sleepers: wake round-robin; repeated signature => livelock
	i := sleepers[0]
	t := st.Threads[i]
	key := fmt.Sprintf("idle:%d:%s", i, sig)
	if _, seen := st.Ghost[key]; seen {
		e.recordViolation(st, sol, &Violation{Kind: "livelock", Label: "livelock", Msg: "polling loops make no progress: " + e.blockedSummary(st), Model: e.modelOrNil(sol, st), Fn: e.blockedFns(st)})
		e.endPath(st, "livelock")
		return []*State{}, false
	}
	st.Ghost[key] = True
	t.Sleeps++
	if e.Cfg.PollUnwind > 0 && t.Sleeps > e.Cfg.PollUnwind {
		e.endPath(st, "poll-bound")
		return []*State{}, false
	}
	return e.wake(st, sol, i)
}

func (e *Engine) wake(st *State, sol *Solver, i int) ([]*State, bool) {
	t := st.Threads[i]
	t.Status = TRunnable
	t.Block = nil
	st.Cur = i
	return nil, true
}

// pickQuiescent forks over: waking the first changed sleeper (base choice, if any),
// or firing any one environment event (completion order unrestricted).
func (e *Engine) pickQuiescent(st *State, sol *Solver, changed, events, timers []int, delayed bool) ([]*State, bool) {
	type alt struct {
		kind string
		idx  int
	}
	var alts []alt
	if len(changed) > 0 {
		alts = append(alts, alt{"sleeper", changed[0]})
	}
	for _, i := range events {
		alts = append(alts, alt{"event", i})
	}
	for _, i := range timers {
		alts = append(alts, alt{"timer", i})
	}
	var out []*State
	for k, a := range alts {
		s := st
		if k < len(alts)-1 {
			s = st.Clone()
			s.ID = int(atomic.AddInt32(&e.stateCtr, 1))
		}
		if delayed && a.kind != "sleeper" {
			s.Delays++
		}
		switch a.kind {
		case "sleeper", "event":
			t := s.Threads[a.idx]
			if a.kind == "event" {
				s.Events = append(s.Events, Event{Kind: "env-event", Thr: a.idx})
			}
			t.Status = TRunnable
			t.Block = nil
			s.Cur = a.idx
		case "timer":
			e.fireTimer(s, a.idx)
		}
		s.Nondets = append(s.Nondets, NondetRec{Tag: "sched.quiescent", Kind: "choice", Conc: k})
		out = append(out, s)
	}
	if len(out) == 1 {
		return nil, true
	}
	return out, false
}

// pick chooses among runnable candidates with delay bounding.
func (e *Engine) pick(st *State, sol *Solver, cands []int) ([]*State, bool) {
	maxSkip := e.Cfg.MaxDelays - st.Delays
	if maxSkip > len(cands)-1 {
		maxSkip = len(cands) - 1
	}
	if maxSkip <= 0 {
		st.Cur = cands[0]
		return nil, true
	}
	var out []*State
	for k := 0; k <= maxSkip; k++ {
		s := st
		if k < maxSkip {
			s = st.Clone()
			s.ID = int(atomic.AddInt32(&e.stateCtr, 1))
		}
		s.Cur = cands[k]
		s.Delays += k
		s.Nondets = append(s.Nondets, NondetRec{Tag: "sched.pick", Kind: "choice", Conc: k})
		out = append(out, s)
	}
	return out, false
}

// yieldPoint may pre-empt the running thread (one delay). Called by
// intrinsics that are scheduling points BEFORE they take effect. Returns
// successor states if it forked (the call is retried in each).
func (e *Engine) yieldPoint(c *Call, label string) []*State {
	st, th := c.St, c.Th
	if e.Cfg.MaxDelays-st.Delays <= 0 || len(st.Threads) < 2 {
		return nil
	}
	if th.NoYield {
		th.NoYield = false
		return nil
	}
	other := -1
	n := len(st.Threads)
	for k := 1; k < n; k++ {
		i := (st.Cur + k) % n
		t := st.Threads[i]
		if t.Status == TRunnable || (t.Status == TBlocked && t.Block != nil && t.Block.Kind != "sleep" && t.Block.Kind != "event" && e.canProceed(st, t)) {
			other = i
			break
		}
		if t.Status == TBlocked && t.Block != nil && (t.Block.Kind == "sleep") {
			other = i
			break
		}
	}
	// once-per-path environment events (kind "stop*"/"crash*"/"any*") may fire at any yield point
	var others []int
	if other >= 0 {
		others = append(others, other)
	}
	for i, t := range st.Threads {
		if i != st.Cur && t.Status == TBlocked && t.Block != nil && t.Block.Kind == "event" {
			if k, ok := t.Block.Aux.(string); ok && (strings.HasPrefix(k, "stop") || strings.HasPrefix(k, "crash") || strings.HasPrefix(k, "any")) {
				others = append(others, i)
			}
		}
	}
	if len(others) == 0 {
		return nil
	}
	var out []*State
	for _, o := range others {
		pre := st.Clone()
		pre.ID = int(atomic.AddInt32(&e.stateCtr, 1))
		pth := pre.Threads[th.ID]
		pth.top().IP-- // retry the call on resume
		pth.NoYield = true
		pre.Delays++
		ot := pre.Threads[o]
		if ot.Block != nil && ot.Block.Kind == "event" {
			pre.Events = append(pre.Events, Event{Kind: "env-event", Thr: o})
		}
		ot.Status = TRunnable
		ot.Block = nil
		pre.Cur = o
		pre.Nondets = append(pre.Nondets, NondetRec{Tag: "sched.preempt@" + label, Kind: "choice", Conc: o})
		out = append(out, pre)
	}
	th.NoYield = false
	return out
}

func (e *Engine) blockedSummary(st *State) string {
	var parts []string
	for _, t := range st.Threads {
		if t.Status == TDone {
			continue
		}
		k := "runnable"
		if t.Block != nil {
			k = t.Block.Kind
		}
		where := "?"
		if f := t.top(); f != nil {
			where = f.Info.Fn.String()
			ip := f.IP
			if ip >= len(f.Block.Instrs) {
				ip = len(f.Block.Instrs) - 1
			}
			for j := ip; j >= 0; j-- {
				if f.Block.Instrs[j].Pos().IsValid() {
					where += " " + posStr(e.Fset, f.Block.Instrs[j].Pos())
					break
				}
			}
		}
		parts = append(parts, fmt.Sprintf("t%d[%s]@%s", t.ID, k, where))
	}
	return strings.Join(parts, "; ")
}

func (e *Engine) blockedFns(st *State) string {
	var parts []string
	for _, t := range st.Threads {
		if t.Status == TDone {
			continue
		}
		for i := len(t.Frames) - 1; i >= 0; i-- {
			f := t.Frames[i]
			if !e.HPkgsFn(f.Info.Fn) && f.Info.Fn.Pkg != nil {
				parts = append(parts, f.Info.Fn.String())
				break
			}
		}
	}
	sort.Strings(parts)
	return strings.Join(parts, ",")
}

// signature: canonical hash of the whole state (heap reachable from threads
// and globals, thread positions), independent of allocation order.
func (e *Engine) signature(st *State) string {
	h := fnv.New64a()
	num := map[int]int{}
	var queue []int
	visitObj := func(o int) int {
		if o == 0 {
			return 0
		}
		if n, ok := num[o]; ok {
			return n
		}
		n := len(num) + 1
		num[o] = n
		queue = append(queue, o)
		return n
	}
	var wr func(v Value)
	wr = func(v Value) {
		switch x := v.(type) {
		case nil:
			h.Write([]byte("~"))
		case *Term:
			h.Write([]byte(x.SMT()))
		case *Struct:
			h.Write([]byte("{"))
			for _, f := range x.F {
				wr(f)
				h.Write([]byte(","))
			}
			h.Write([]byte("}"))
		case *Array:
			h.Write([]byte("["))
			for _, f := range x.E {
				wr(f)
				h.Write([]byte(","))
			}
			h.Write([]byte("]"))
		case Ptr:
			fmt.Fprintf(h, "p%d%v", visitObj(x.Obj), x.Path)
		case Slice:
			fmt.Fprintf(h, "s%d,%d,%d,%d", visitObj(x.Obj), x.Off, x.Len, x.Cap)
		case MapRef:
			fmt.Fprintf(h, "m%d", visitObj(x.Obj))
		case ChanRef:
			fmt.Fprintf(h, "c%d", visitObj(x.Obj))
		case Iface:
			if x.T == nil {
				h.Write([]byte("i0"))
			} else {
				h.Write([]byte("i" + x.T.String()))
				wr(x.V)
			}
		case *Closure:
			if x == nil {
				h.Write([]byte("f0"))
			} else if x.Fn != nil {
				h.Write([]byte("f" + x.Fn.String()))
				for _, b := range x.Binds {
					wr(b)
				}
			} else {
				h.Write([]byte("b" + x.Builtin))
			}
		case Tuple:
			for _, f := range x {
				wr(f)
				h.Write([]byte(";"))
			}
		case *Iter:
			fmt.Fprintf(h, "it%d/%d", x.Idx, len(x.Keys))
		case Float:
			fmt.Fprintf(h, "fl%v%s", x.V, x.Tag)
		case *MapObj:
			for i := range x.Keys {
				wr(x.Keys[i])
				h.Write([]byte(":"))
				wr(x.Vals[i])
			}
		case *ChanObj:
			fmt.Fprintf(h, "ch%d,%v,%d", x.Cap, x.Closed, len(x.SendQ))
			for _, b := range x.Buf {
				wr(b)
			}
		case Opaque:
			fmt.Fprintf(h, "op%s%v", x.Kind, x.Data)
		default:
			fmt.Fprintf(h, "?%T", v)
		}
	}
	for _, t := range st.Threads {
		fmt.Fprintf(h, "T%d:%d", t.ID, t.Status)
		if t.Block != nil {
			h.Write([]byte(t.Block.Kind))
		}
		for _, f := range t.Frames {
			fmt.Fprintf(h, "F%s:%d:%d", f.Info.Fn.String(), f.Block.Index, f.IP)
			for _, l := range f.Locals {
				wr(l)
				h.Write([]byte("|"))
			}
		}
	}
	// globals in deterministic order
	type gk struct {
		name string
		id   int
	}
	var gs []gk
	for g, id := range st.Globals {
		gs = append(gs, gk{g.String(), id})
	}
	sort.Slice(gs, func(i, j int) bool { return gs[i].name < gs[j].name })
	for _, g := range gs {
		fmt.Fprintf(h, "G%s=%d", g.name, visitObj(g.id))
	}
	for len(queue) > 0 {
		o := queue[0]
		queue = queue[1:]
		fmt.Fprintf(h, "O%d=", num[o])
		wr(st.Heap[o])
	}
	fmt.Fprintf(h, "ev%d", len(st.World.Env))
	return fmt.Sprintf("%x", h.Sum64())
}

// ---------------------------------------------------------------- channels

func (e *Engine) block(st *State, th *Thread, b *BlockCond) {
	th.Status = TBlocked
	th.Block = b
}

func (e *Engine) chanSend(st *State, th *Thread, fr *Frame, x *ssa.Send, sol *Solver) ([]*State, bool) {
	c := e.eval(st, fr, x.Chan).(ChanRef)
	v := e.eval(st, fr, x.X)
	if c.Obj == 0 {
		e.block(st, th, &BlockCond{Kind: "forever"})
		return e.schedule(st, sol)
	}
	co := *st.Heap[c.Obj].(*ChanObj)
	if co.Closed {
		e.raise(st, th, "send-closed", "send on closed channel", nil)
		return nil, true
	}
	if co.Cap > 0 {
		if len(co.Buf) < co.Cap {
			co.Buf = append(append([]Value(nil), co.Buf...), v)
			st.Heap[c.Obj] = &co
			fr.IP++
			return nil, true
		}
		e.block(st, th, &BlockCond{Kind: "send", Obj: c.Obj})
		return e.schedule(st, sol)
	}
	// unbuffered: enqueue in SendQ once, then wait until taken
	if th.SendPending {
		// we were woken: value taken?
		for _, w := range co.SendQ {
			if w.Thread == th.ID {
				e.block(st, th, &BlockCond{Kind: "send", Obj: c.Obj})
				return e.schedule(st, sol)
			}
		}
		th.SendPending = false
		fr.IP++
		return nil, true
	}
	co.SendQ = append(append([]ChanWaiter(nil), co.SendQ...), ChanWaiter{Thread: th.ID, Val: v})
	st.Heap[c.Obj] = &co
	th.SendPending = true
	e.block(st, th, &BlockCond{Kind: "send", Obj: c.Obj})
	return e.schedule(st, sol)
}

// tryRecv takes a value if available. ok=false if it would block.
func (e *Engine) tryRecv(st *State, c ChanRef) (v Value, open bool, ok bool) {
	co := *st.Heap[c.Obj].(*ChanObj)
	if len(co.Buf) > 0 {
		v = co.Buf[0]
		co.Buf = append([]Value(nil), co.Buf[1:]...)
		st.Heap[c.Obj] = &co
		return v, true, true
	}
	if len(co.SendQ) > 0 {
		w := co.SendQ[0]
		co.SendQ = append([]ChanWaiter(nil), co.SendQ[1:]...)
		st.Heap[c.Obj] = &co
		return w.Val, true, true
	}
	if co.Closed {
		return Zero(co.ET), false, true
	}
	return nil, false, false
}

func (e *Engine) chanRecv(st *State, th *Thread, fr *Frame, x *ssa.UnOp, c ChanRef, sol *Solver) ([]*State, bool) {
	if c.Obj == 0 {
		e.block(st, th, &BlockCond{Kind: "forever"})
		return e.schedule(st, sol)
	}
	if tm := e.timerForChan(st, c.Obj); tm >= 0 && len(st.Heap[c.Obj].(*ChanObj).Buf) == 0 {
		// receive from a timer channel: block until the env fires it
		e.block(st, th, &BlockCond{Kind: "recv", Obj: c.Obj})
		return e.schedule(st, sol)
	}
	v, open, ok := e.tryRecv(st, c)
	if !ok {
		e.block(st, th, &BlockCond{Kind: "recv", Obj: c.Obj})
		return e.schedule(st, sol)
	}
	if x.CommaOk {
		e.setLocal(fr, x, Tuple{v, BoolC(open)})
	} else {
		e.setLocal(fr, x, v)
	}
	fr.IP++
	return nil, true
}

type selCase struct {
	Send bool
	Chan ChanRef
	Val  Value
}

func (e *Engine) selectReady(st *State, th *Thread, cases []selCase) bool {
	for _, c := range cases {
		if c.Chan.Obj == 0 {
			continue
		}
		co := st.Heap[c.Chan.Obj].(*ChanObj)
		if c.Send {
			if co.Closed || (co.Cap > 0 && len(co.Buf) < co.Cap) {
				return true
			}
		} else if len(co.Buf) > 0 || len(co.SendQ) > 0 || co.Closed {
			return true
		}
	}
	return false
}

func (e *Engine) selectInstr(st *State, th *Thread, fr *Frame, x *ssa.Select, sol *Solver) ([]*State, bool) {
	var cases []selCase
	for _, s := range x.States {
		sc := selCase{Send: s.Dir == 1, Chan: e.eval(st, fr, s.Chan).(ChanRef)}
		if sc.Send {
			sc.Val = e.eval(st, fr, s.Send)
		}
		cases = append(cases, sc)
	}
	nrecv := 0
	for _, c := range cases {
		if !c.Send {
			nrecv++
		}
	}
	// find ready cases
	var ready []int
	for i, c := range cases {
		if c.Chan.Obj == 0 {
			continue
		}
		co := st.Heap[c.Chan.Obj].(*ChanObj)
		if c.Send {
			if co.Closed || (co.Cap > 0 && len(co.Buf) < co.Cap) {
				ready = append(ready, i)
			}
		} else if len(co.Buf) > 0 || len(co.SendQ) > 0 || co.Closed {
			ready = append(ready, i)
		}
	}
	finish := func(s *State, idx int) {
		t := s.Threads[th.ID]
		f := t.top()
		res := Tuple{BVC(uint64(int64(idx)), 64), False}
		var recvVals []Value
		for i, sc := range x.States {
			if sc.Dir == 1 {
				continue
			}
			et := chanElem(sc.Chan.Type())
			if i == idx {
				v, open, _ := e.tryRecv(s, cases[i].Chan)
				res[1] = BoolC(open)
				recvVals = append(recvVals, v)
			} else {
				recvVals = append(recvVals, Zero(et))
			}
		}
		if idx >= 0 && cases[idx].Send {
			co := *s.Heap[cases[idx].Chan.Obj].(*ChanObj)
			if co.Closed {
				e.raise(s, t, "send-closed", "send on closed channel (select)", nil)
				return
			}
			co.Buf = append(append([]Value(nil), co.Buf...), cases[idx].Val)
			s.Heap[cases[idx].Chan.Obj] = &co
		}
		res = append(res, recvVals...)
		e.setLocal(f, x, res)
		f.IP++
	}
	if len(ready) == 0 {
		if !x.Blocking {
			finish(st, -1)
			return nil, true
		}
		e.block(st, th, &BlockCond{Kind: "select", Aux: cases})
		return e.schedule(st, sol)
	}
	if len(ready) == 1 {
		finish(st, ready[0])
		return nil, true
	}
	// several ready: nondeterministic choice (fork)
	var out []*State
	for k, idx := range ready {
		s := st
		if k < len(ready)-1 {
			s = st.Clone()
			s.ID = int(atomic.AddInt32(&e.stateCtr, 1))
		}
		s.Nondets = append(s.Nondets, NondetRec{Tag: "select", Kind: "choice", Conc: idx})
		finish(s, idx)
		out = append(out, s)
	}
	return out, false
}
