package sym

import (
	"fmt"
	"os"
	"path/filepath"
	"sort"
	"strings"
)

// Models needed by the JSON-file history store (DESIGN.md 3.1-3.3): filepath.Glob over the
// FS world (concrete names), regexp FindString (constants), sort.Sort on string slices,
// line-oriented reads (Seek + bufio.Reader.ReadLine), encoding/json as an opaque payload
// registry, x/exp/rand.

type lineView struct {
	text *Term
	term bool // terminated by '\n'
}

// fsLines splits a file's chunks into lines. Chunks are either "\n"-free payloads or the
// constant "\n" (that is how the history writer produces them); a constant chunk may
// contain several newlines.
func (e *Engine) fsLines(st *State, idx int) []lineView {
	var out []lineView
	var cur []*Term
	flushLine := func(term bool) {
		out = append(out, lineView{text: StrConcat(cur...), term: term})
		cur = nil
	}
	for _, ch := range st.fs().Files[idx].Data {
		if ch.Const {
			parts := strings.Split(ch.S, "\n")
			for i, p := range parts {
				if p != "" {
					cur = append(cur, StrC(p))
				}
				if i < len(parts)-1 {
					flushLine(true)
				}
			}
			continue
		}
		cur = append(cur, ch) // symbolic chunk: a (torn prefix of a) newline-free payload
	}
	if len(cur) > 0 {
		flushLine(false)
	}
	return out
}

func registerJSONDB(e *Engine) {
	// ---- filepath.Glob over the FS world
	e.Intr["path/filepath.Glob"] = func(c *Call) []*State {
		pat := c.constStr(0)
		var names []string
		for _, f := range c.St.fs().Files {
			if !f.Exists {
				continue
			}
			if !f.Path.Const {
				panic(unsupported("filepath.Glob with symbolic file names present"))
			}
			ok, err := filepath.Match(pat, f.Path.S)
			if err != nil {
				return c.Return(Tuple{Slice{}, e.newErrorString(c.St, StrC("syntax error in pattern"))})
			}
			if ok {
				names = append(names, f.Path.S)
			}
		}
		sort.Strings(names)
		if len(names) == 0 {
			return c.Return(Tuple{Slice{}, Iface{}})
		}
		vals := make([]Value, len(names))
		for i, n := range names {
			vals[i] = StrC(n)
		}
		return c.Return(Tuple{e.newSlice(c.St, vals), Iface{}})
	}
	e.Intr["(*regexp.Regexp).FindString"] = func(c *Call) []*State {
		ri := reOf(c, c.Args[0])
		s := c.argTerm(1)
		if !s.Const || !ri.Known {
			panic(unsupported("FindString on a symbolic string"))
		}
		return c.Return(StrC(ri.GoRe.FindString(s.S)))
	}
	e.Intr["(*regexp.Regexp).FindStringSubmatch"] = func(c *Call) []*State {
		ri := reOf(c, c.Args[0])
		s := c.argTerm(1)
		if !s.Const || !ri.Known {
			panic(unsupported("FindStringSubmatch on a symbolic string"))
		}
		m := ri.GoRe.FindStringSubmatch(s.S)
		if m == nil {
			return c.Return(Slice{})
		}
		vals := make([]Value, len(m))
		for i, x := range m {
			vals[i] = StrC(x)
		}
		return c.Return(e.newSlice(c.St, vals))
	}
	// ---- sort.Sort / sort.Strings on constant string slices (sort.Reverse supported)
	e.Intr["sort.Reverse"] = func(c *Call) []*State {
		id := c.St.Alloc(Opaque{Kind: "sort.reverse", Data: c.Args[0]})
		p := e.Prog.ImportedPackage("sort")
		return c.Return(Iface{T: typesPointer(p.Type("reverse").Type()), V: Ptr{Obj: id}})
	}
	sortStrings := func(c *Call, sl Slice, desc bool) {
		vals := make([]string, sl.Len)
		for i := 0; i < sl.Len; i++ {
			t := c.St.Load(Ptr{Obj: sl.Obj, Path: []int{sl.Off + i}}).(*Term)
			if !t.Const {
				panic(unsupported("sort of symbolic strings"))
			}
			vals[i] = t.S
		}
		sort.Strings(vals)
		if desc {
			for i, j := 0, len(vals)-1; i < j; i, j = i+1, j-1 {
				vals[i], vals[j] = vals[j], vals[i]
			}
		}
		for i, v := range vals {
			c.St.Store(Ptr{Obj: sl.Obj, Path: []int{sl.Off + i}}, StrC(v))
		}
	}
	e.Intr["sort.Sort"] = func(c *Call) []*State {
		iv := c.Args[0].(Iface)
		desc := false
		if p, ok := iv.V.(Ptr); ok && !p.IsNil() {
			if o, ok := c.St.Heap[p.Obj].(Opaque); ok && o.Kind == "sort.reverse" {
				desc = true
				iv = o.Data.(Iface)
			}
		}
		sl, ok := iv.V.(Slice)
		if !ok || iv.T == nil || !strings.HasSuffix(iv.T.String(), "StringSlice") {
			panic(unsupported("sort.Sort on " + ValStr(c.Args[0])))
		}
		sortStrings(c, sl, desc)
		return c.Return(nil)
	}
	e.Intr["sort.Strings"] = func(c *Call) []*State {
		sortStrings(c, c.Args[0].(Slice), false)
		return c.Return(nil)
	}
	// ---- Seek + bufio.Reader.ReadLine on model files
	e.Intr["(*os.File).Seek"] = func(c *Call) []*State {
		obj, h, ok := handleOf(c.St, c.Args[0])
		if !ok {
			return c.Panic("nil-deref", "Seek on nil *os.File")
		}
		off := c.argTerm(1)
		c.St.Ghost[fmt.Sprintf("fileoff:%d", obj)] = off
		_ = h
		return c.Return(Tuple{off, Iface{}})
	}
	e.Intr["bufio.NewReader"] = func(c *Call) []*State {
		iv := c.Args[0].(Iface)
		obj, _, ok := handleOf(c.St, iv.V)
		if !ok {
			panic(unsupported("bufio.NewReader over a reader without model"))
		}
		id := c.St.Alloc(Opaque{Kind: "bufio.Reader", Data: obj})
		return c.Return(Ptr{Obj: id})
	}
	e.Intr["(*bufio.Reader).ReadLine"] = func(c *Call) []*State {
		fobj := c.St.Heap[c.Args[0].(Ptr).Obj].(Opaque).Data.(int)
		h := c.St.Heap[fobj].(Opaque).Data.(fileHandle)
		off := BVC(0, 64)
		if v, ok := c.St.Ghost[fmt.Sprintf("fileoff:%d", fobj)]; ok {
			off = v.(*Term)
		}
		lines := e.fsLines(c.St, h.File)
		eof := func(st *State) Value {
			g := e.Prog.ImportedPackage("io").Var("EOF")
			return Tuple{Slice{}, False, st.Load(Ptr{Obj: e.globalObj(st, g)})}
		}
		// the line that starts at byte offset off
		start := BVC(0, 64)
		var outs []Outcome
		for i, ln := range lines {
			i, ln := i, ln
			st0 := start
			next := BVAdd(st0, StrLen(ln.text, 64))
			if ln.term {
				next = BVAdd(next, BVC(1, 64))
			}
			outs = append(outs, Outcome{Cond: Eq(off, st0), Eff: func(st *State) {
				// consumed up to the start of the next line
				st.Ghost[fmt.Sprintf("fileoff:%d", fobj)] = next
				e.setLocal(st.Threads[c.Th.ID].top(), c.RetTo, Tuple{Bytes{S: lines[i].text}, False, Iface{}})
			}})
			start = next
		}
		total := start
		outs = append(outs, Outcome{Cond: Eq(off, total), Eff: func(st *State) {
			e.setLocal(st.Threads[c.Th.ID].top(), c.RetTo, eof(st))
		}})
		// an offset that is not a line start (e.g. past a torn line): only reachable when the
		// reader's own accounting (len(line)+1) overshoots the end of an unterminated last line
		beyond := BVSlt(total, off)
		outs = append(outs, Outcome{Cond: beyond, Eff: func(st *State) {
			e.setLocal(st.Threads[c.Th.ID].top(), c.RetTo, eof(st))
		}})
		if os.Getenv("GOSYM_DEBUG") != "" {
			fmt.Fprintf(os.Stderr, "ReadLine off=%s total=%s lines=%d data=%d\n", off.SMT(), total.SMT(), len(lines), len(c.St.fs().Files[h.File].Data))
		}
		return c.outcomesNoRet(c.sol2(), outs)
	}
	// ---- encoding/json: opaque payloads registered with a snapshot of the encoded object
	e.Intr["encoding/json.Marshal"] = func(c *Call) []*State {
		if msg := e.jsonUnsupported(c.St, c.Args[0], 0); msg != "" {
			return c.Return(Tuple{Slice{}, e.newErrorString(c.St, StrC(msg))})
		}
		n := 0
		for k := range c.St.Ghost {
			if strings.HasPrefix(k, "jsonobj:") {
				n++
			}
		}
		tok := StrC(fmt.Sprintf("{\"json\":%d}", n))
		v := c.Args[0]
		if iv, ok := v.(Iface); ok {
			v = iv.V
		}
		if p, ok := v.(Ptr); ok && !p.IsNil() {
			// snapshot of the pointed-to value at encoding time
			id := c.St.Alloc(c.St.Load(p))
			v = Ptr{Obj: id}
		}
		c.St.Ghost["jsonobj:"+tok.S] = v
		// wire size: the token stands for an encoding at least as long as the symbolic strings in it
		var leaves []*Term
		e.jsonSymStrings(c.St, c.Args[0], 0, &leaves)
		if len(leaves) > 0 {
			sz := IntC(int64(len(tok.S)))
			for _, l := range leaves {
				sz = intArith("+", sz, StrLenInt(l))
			}
			c.St.Ghost["jsonsize:"+tok.S] = sz
		}
		return c.Return(Tuple{Bytes{S: tok}, Iface{}})
	}
	e.Intr["encoding/json.Unmarshal"] = func(c *Call) []*State {
		s := e.bytesTerm(c.St, c.Args[0])
		dst, _ := c.Args[1].(Iface)
		dp, ok := dst.V.(Ptr)
		if !ok || dp.IsNil() {
			return c.Return(e.newErrorString(c.St, StrC("json: Unmarshal(nil)")))
		}
		if s.Const {
			if v, ok := c.St.Ghost["jsonobj:"+s.S]; ok {
				if sp, ok := v.(Ptr); ok {
					c.St.Store(dp, c.St.Load(sp))
					return c.Return(Iface{})
				}
			}
			return c.Return(e.newErrorString(c.St, StrC("invalid character in JSON input")))
		}
		// symbolic text (a torn prefix of a payload, possibly followed by a later record on the same
		// line): valid exactly when it equals a registered token — a proper prefix of a JSON
		// object, or such a prefix followed by another object, is never valid JSON
		var toks []string
		for k := range c.St.Ghost {
			if strings.HasPrefix(k, "jsonobj:") {
				toks = append(toks, strings.TrimPrefix(k, "jsonobj:"))
			}
		}
		sort.Strings(toks)
		var outs []Outcome
		var any []*Term
		for _, tk := range toks {
			tk := tk
			sp, ok := c.St.Ghost["jsonobj:"+tk].(Ptr)
			if !ok {
				continue
			}
			cond := Eq(s, StrC(tk))
			any = append(any, cond)
			outs = append(outs, Outcome{Cond: cond, Ret: Iface{}, Eff: func(st *State) { st.Store(dp, st.Load(sp)) }})
		}
		outs = append(outs, Outcome{Cond: Not(Or(any...)), Ret: e.newErrorString(c.St, StrC("unexpected end of JSON input"))})
		return c.Outcomes(c.sol2(), outs)
	}
	e.Intr["golang.org/x/exp/rand.Intn"] = func(c *Call) []*State { return c.Return(BVC(0, 64)) }
}
