package sym

import (
	"time"
	"fmt"
	"go/types"
	"strings"
)

// ---------------------------------------------------------------- time

// time.Time is kept in its real struct layout {wall uint64, ext int64, loc *Location};
// the model stores nanoseconds since an arbitrary epoch in ext, wall = 0, loc = nil.
// The zero Time is ext == 0.

func timeVal(ext *Term) Value { return &Struct{F: []Value{BVC(0, 64), ext, Ptr{}}} }
func timeExt(v Value) *Term   { return v.(*Struct).F[1].(*Term) }

func (e *Engine) now(st *State) *Term {
	if e.Cfg.ConcreteClock {
		// deterministic clock: distinct instants 7 ms apart (obligations whose subject is not time)
		st.ClockN++
		t := BVC(uint64(1700000000000000000+int64(st.ClockN)*7000000), 64)
		st.Clock = t
		return t
	}
	t := FreshVar("now", SBV, 64)
	st.Nondets = append(st.Nondets, NondetRec{Tag: "time.Now", Kind: "int", Term: t})
	// positive, bounded (no overflow in small arithmetic): 1 <= t < 2^62
	st.Assume(BVSlt(BVC(0, 64), t))
	st.Assume(BVSlt(t, BVC(1<<62, 64)))
	if st.Clock != nil {
		st.Assume(BVSle(st.Clock, t))
	}
	st.Clock = t
	st.ClockN++
	return t
}

func registerTime(e *Engine) {
	e.Intr["time.Now"] = func(c *Call) []*State { return c.Return(timeVal(c.E.now(c.St))) }
	e.Intr["time.Unix"] = func(c *Call) []*State {
		return c.Return(timeVal(BVAdd(BVMul(c.argTerm(0), BVC(1000000000, 64)), c.argTerm(1))))
	}
	e.Intr["time.Since"] = func(c *Call) []*State {
		n := c.E.now(c.St)
		return c.Return(BVSub(n, timeExt(c.Args[0])))
	}
	e.Intr["time.Until"] = func(c *Call) []*State {
		n := c.E.now(c.St)
		return c.Return(BVSub(timeExt(c.Args[0]), n))
	}
	e.Intr["(time.Time).Sub"] = func(c *Call) []*State {
		return c.Return(BVSub(timeExt(c.Args[0]), timeExt(c.Args[1])))
	}
	e.Intr["(time.Time).Add"] = func(c *Call) []*State {
		return c.Return(timeVal(BVAdd(timeExt(c.Args[0]), c.argTerm(1))))
	}
	e.Intr["(time.Time).After"] = func(c *Call) []*State {
		return c.Return(BVSlt(timeExt(c.Args[1]), timeExt(c.Args[0])))
	}
	e.Intr["(time.Time).Before"] = func(c *Call) []*State {
		return c.Return(BVSlt(timeExt(c.Args[0]), timeExt(c.Args[1])))
	}
	e.Intr["(time.Time).Equal"] = func(c *Call) []*State {
		return c.Return(Eq(timeExt(c.Args[0]), timeExt(c.Args[1])))
	}
	e.Intr["(time.Time).IsZero"] = func(c *Call) []*State {
		return c.Return(Eq(timeExt(c.Args[0]), BVC(0, 64)))
	}
	e.Intr["(time.Time).UnixNano"] = func(c *Call) []*State { return c.Return(timeExt(c.Args[0])) }
	e.Intr["(time.Time).Unix"] = func(c *Call) []*State {
		t := timeExt(c.Args[0])
		if t.Const {
			return c.Return(BVC(uint64(time.Unix(0, t.Signed()).Unix()), 64))
		}
		DeclareFun("time_unix_sec", "(declare-fun |time_unix_sec| ((_ BitVec 64)) (_ BitVec 64))")
		u := App("time_unix_sec", SBV, 64, t)
		// seconds since the epoch of a positive instant are positive (no file is older than 1970)
		c.St.Assume(Implies(BVSlt(BVC(1000000000, 64), t), BVSlt(BVC(0, 64), u)))
		return c.Return(u)
	}
	e.Intr["(time.Time).Truncate"] = func(c *Call) []*State {
		d := c.argTerm(1)
		t := timeExt(c.Args[0])
		if d.Const && d.Signed() <= 0 {
			return c.Return(c.Args[0])
		}
		if d.Const && t.Const {
			return c.Return(timeVal(BVC(uint64(t.Signed()-t.Signed()%d.Signed()), 64)))
		}
		// r = t - (t mod d) as a relational model: r <= t < r + d, r ≡ 0 (mod d)
		// (multiples tracked through an uninterpreted quotient to avoid bvurem)
		r := FreshVar("trunc", SBV, 64)
		c.St.Assume(BVSle(r, t))
		c.St.Assume(BVSlt(t, BVAdd(r, d)))
		c.St.Assume(BVSle(BVC(0, 64), r))
		c.St.Ghost["trunc:"+r.SMT()] = d
		// same input & duration => same result
		key := "truncmemo:" + t.SMT() + ":" + d.SMT()
		if v, ok := c.St.Ghost[key]; ok {
			return c.Return(timeVal(v.(*Term)))
		}
		c.St.Ghost[key] = r
		return c.Return(timeVal(r))
	}
	e.Intr["(time.Time).Format"] = func(c *Call) []*State {
		if t, l := timeExt(c.Args[0]), c.argTerm(1); t.Const && l.Const {
			// exact for concrete instants (time.Local = UTC assumed)
			return c.Return(StrC(time.Unix(0, t.Signed()).UTC().Format(l.S)))
		}
		return c.Return(c.E.timeFormat(c.St, timeExt(c.Args[0]), c.argTerm(1)))
	}
	e.Intr["(time.Time).AddDate"] = func(c *Call) []*State {
		t := timeExt(c.Args[0])
		y, m, d := c.argTerm(1), c.argTerm(2), c.argTerm(3)
		if !y.Const || !m.Const || !d.Const {
			panic(unsupported("AddDate with symbolic arguments"))
		}
		if t.Const {
			r := time.Unix(0, t.Signed()).UTC().AddDate(int(y.Signed()), int(m.Signed()), int(d.Signed()))
			return c.Return(timeVal(BVC(uint64(r.UnixNano()), 64)))
		}
		if y.Signed() != 0 || m.Signed() != 0 {
			panic(unsupported("AddDate of years/months on a symbolic instant"))
		}
		return c.Return(timeVal(BVAdd(t, BVC(uint64(d.Signed()*86400*1000000000), 64))))
	}
	e.Intr["time.Date"] = func(c *Call) []*State {
		var a [7]int
		for i := 0; i < 7; i++ {
			t := c.argTerm(i)
			if !t.Const {
				panic(unsupported("time.Date with symbolic fields"))
			}
			a[i] = int(t.Signed())
		}
		d := time.Date(a[0], time.Month(a[1]), a[2], a[3], a[4], a[5], a[6], time.UTC)
		return c.Return(timeVal(BVC(uint64(d.UnixNano()), 64)))
	}
	e.Intr["time.ParseInLocation"] = func(c *Call) []*State {
		l, v := c.argTerm(0), c.argTerm(1)
		if l.Const && v.Const {
			t, err := time.ParseInLocation(l.S, v.S, time.UTC)
			if err != nil {
				return c.Return(Tuple{timeVal(BVC(0, 64)), c.E.newErrorString(c.St, StrC(err.Error()))})
			}
			return c.Return(Tuple{timeVal(BVC(uint64(t.UnixNano()), 64)), Iface{}})
		}
		// symbolic text: Parse(Format(t, layout), layout) = t truncated to the layout's resolution is not
		// tracked; the result is an arbitrary instant or an error
		ok := FreshVar("time.parse.ok", SBool, 0)
		c.St.Nondets = append(c.St.Nondets, NondetRec{Tag: "time.parse.ok", Kind: "bool", Term: ok})
		tv := FreshVar("time.parsed", SBV, 64)
		c.St.Assume(BVSle(BVC(0, 64), tv))
		return c.Outcomes(c.sol2(), []Outcome{{Cond: ok, Ret: Tuple{timeVal(tv), Iface{}}}, {Cond: Not(ok), Ret: Tuple{timeVal(BVC(0, 64)), c.E.newErrorString(c.St, StrC("parsing time: invalid"))}}})
	}
	e.Intr["(time.Time).UTC"] = func(c *Call) []*State { return c.Return(c.Args[0]) }
	e.Intr["(time.Time).Local"] = func(c *Call) []*State { return c.Return(c.Args[0]) }
	e.Intr["(time.Time).In"] = func(c *Call) []*State { return c.Return(c.Args[0]) }
	e.Intr["(time.Time).String"] = func(c *Call) []*State {
		return c.Return(c.E.timeFormat(c.St, timeExt(c.Args[0]), StrC("String")))
	}
	e.Intr["(time.Duration).String"] = func(c *Call) []*State {
		return c.Return(App("duration_string", SString, 0, c.argTerm(0)))
	}
	e.Intr["(time.Duration).Seconds"] = func(c *Call) []*State {
		d := c.argTerm(0)
		if d.Const {
			return c.Return(Float{Known: true, V: float64(d.Signed()) / 1e9})
		}
		return c.Return(Float{Tag: "secs(" + d.SMT() + ")"})
	}
	// time.Timer: a channel of capacity 1 that the environment fills when the timer fires
	// (at a quiescent point, or earlier by spending a scheduling delay); firing order between
	// armed timers is unrestricted (durations are order-only, DESIGN 3.3)
	newTimer := func(c *Call, dur *Term) Ptr {
		tt := c.E.Prog.ImportedPackage("time").Type("Timer").Type()
		z := Zero(tt).(*Struct)
		nf := append([]Value(nil), z.F...)
		et := tt.Underlying().(*types.Struct).Field(0).Type().Underlying().(*types.Chan).Elem()
		chID := c.St.Alloc(&ChanObj{Cap: 1, ET: et})
		nf[0] = ChanRef{Obj: chID}
		id := c.St.Alloc(&Struct{F: nf})
		c.St.Timers = append(c.St.Timers, Timer{ID: len(c.St.Timers), Chan: chID, Armed: true, Order: len(c.St.Timers), Dur: dur, Kind: "timer"})
		c.St.Ghost[fmt.Sprintf("timerobj:%d", id)] = BVC(uint64(len(c.St.Timers)-1), 64)
		return Ptr{Obj: id}
	}
	timerIdx := func(c *Call) int {
		v, ok := c.St.Ghost[fmt.Sprintf("timerobj:%d", c.Args[0].(Ptr).Obj)]
		if !ok {
			panic(unsupported("method on a time.Timer without model"))
		}
		return int(v.(*Term).U)
	}
	e.Intr["time.NewTimer"] = func(c *Call) []*State { return c.Return(newTimer(c, c.argTerm(0))) }
	e.Intr["time.After"] = func(c *Call) []*State {
		p := newTimer(c, c.argTerm(0))
		return c.Return(c.St.Load(p).(*Struct).F[0])
	}
	e.Intr["(*time.Timer).Stop"] = func(c *Call) []*State {
		i := timerIdx(c)
		t := c.St.Timers[i]
		was := t.Armed && !t.Fired
		t.Armed = false
		c.St.Timers[i] = t
		return c.Return(BoolC(was))
	}
	e.Intr["(*time.Timer).Reset"] = func(c *Call) []*State {
		i := timerIdx(c)
		t := c.St.Timers[i]
		was := t.Armed && !t.Fired
		t.Armed, t.Fired, t.Dur = true, false, c.argTerm(1)
		c.St.Timers[i] = t
		return c.Return(BoolC(was))
	}
	e.Intr["time.Sleep"] = func(c *Call) []*State {
		// a scheduling point: other threads run; polling loops are stutter-reduced
		if len(c.St.Threads) < 2 {
			return c.Return(nil)
		}
		if c.Th.Slept {
			c.Th.Slept = false
			return c.Return(nil)
		}
		c.Th.Slept = true
		c.Retry()
		c.E.block(c.St, c.Th, &BlockCond{Kind: "sleep"})
		c.Th.LastSig = c.E.signature(c.St)
		succ, cont := c.E.schedule(c.St, c.sol2())
		if cont {
			return nil
		}
		return succ
	}
}

func (e *Engine) timeFormat(st *State, ext *Term, layout *Term) *Term {
	DeclareFun("time_format", "(declare-fun |time_format| ((_ BitVec 64) String) String)")
	DeclareFun("time_unix_sec", "(declare-fun |time_unix_sec| ((_ BitVec 64)) (_ BitVec 64))")
	return App("time_format", SString, 0, ext, layout)
}

func init() {
	DeclareFun("time_unix_sec", "(declare-fun |time_unix_sec| ((_ BitVec 64)) (_ BitVec 64))")
	DeclareFun("duration_string", "(declare-fun |duration_string| ((_ BitVec 64)) String)")
	DeclareFun("time_format", "(declare-fun |time_format| ((_ BitVec 64) String) String)")
}

// timers (environment events)
func (e *Engine) armedTimers(st *State) []int {
	var out []int
	for i, t := range st.Timers {
		if t.Armed && !t.Fired {
			out = append(out, i)
		}
	}
	return out
}

func (e *Engine) fireTimer(st *State, i int) {
	t := st.Timers[i]
	t.Fired = true
	t.Armed = false
	st.Timers[i] = t
	st.Events = append(st.Events, Event{Kind: "timer-fired", Args: []Value{BVC(uint64(t.ID), 64)}})
	st.Nondets = append(st.Nondets, NondetRec{Src: "o", Tag: "timer:" + t.Kind, Kind: "choice"})
	if t.ArmClock != nil && t.Dur != nil && !e.Cfg.ConcreteClock {
		// clock consistency: from now on time.Now() is later than arm time + duration
		n := e.now(st)
		st.Assume(BVSlt(BVAdd(t.ArmClock, t.Dur), n))
	}
	if t.Chan != 0 {
		co := *st.Heap[t.Chan].(*ChanObj)
		if len(co.Buf) < co.Cap {
			co.Buf = append(append([]Value(nil), co.Buf...), timeVal(e.now(st)))
		}
		st.Heap[t.Chan] = &co
	}
	if t.OnFire != nil {
		t.OnFire(st)
	}
}

func (e *Engine) timerForChan(st *State, obj int) int {
	for i, t := range st.Timers {
		if t.Chan == obj && t.Armed && !t.Fired {
			return i
		}
	}
	return -1
}

func chanElem(t types.Type) types.Type { return t.Underlying().(*types.Chan).Elem() }

// ---------------------------------------------------------------- os / env

func (e *Engine) envLookup(st *State, key *Term) (val *Term, found *Term) {
	val = StrC("")
	found = False
	for i := 0; i < len(st.World.Env); i++ {
		ev := st.World.Env[i]
		eq := Eq(ev.Key, key)
		if ev.Set {
			val = Ite(eq, ev.Val, val)
			found = Ite(eq, True, found)
		} else {
			val = Ite(eq, StrC(""), val)
			found = Ite(eq, False, found)
		}
	}
	return
}

func registerOS(e *Engine) {
	e.Intr["os.Setenv"] = func(c *Call) []*State {
		k, v := c.argTerm(0), c.argTerm(1)
		// syscall.Setenv: EINVAL for an empty key, '=' or NUL in the key, NUL in the value (environment unchanged)
		nul := StrC("\x00")
		invalid := Or(Eq(k, StrC("")), StrContains(k, StrC("=")), StrContains(k, nul), StrContains(v, nul))
		set := func(st *State) {
			st.World.Env = append(st.World.Env, EnvVar{Key: k, Val: v, Set: true})
			st.Events = append(st.Events, Event{Kind: "setenv", Args: []Value{k, v}, Thr: c.Th.ID})
		}
		if invalid.Const {
			if invalid.B {
				return c.Return(c.E.newErrorString(c.St, StrC("setenv: invalid argument")))
			}
			set(c.St)
			return c.Return(Iface{})
		}
		errv := c.E.newErrorString(c.St, StrC("setenv: invalid argument"))
		return c.Outcomes(c.sol2(), []Outcome{{Cond: Not(invalid), Ret: Iface{}, Eff: set}, {Cond: invalid, Ret: errv}})
	}
	e.Intr["os.Unsetenv"] = func(c *Call) []*State {
		c.St.World.Env = append(c.St.World.Env, EnvVar{Key: c.argTerm(0), Set: false})
		c.St.Events = append(c.St.Events, Event{Kind: "unsetenv", Args: []Value{c.argTerm(0)}, Thr: c.Th.ID})
		return c.Return(Iface{})
	}
	e.Intr["os.Getenv"] = func(c *Call) []*State {
		v, _ := c.E.envLookup(c.St, c.argTerm(0))
		return c.Return(v)
	}
	e.Intr["os.LookupEnv"] = func(c *Call) []*State {
		v, f := c.E.envLookup(c.St, c.argTerm(0))
		return c.Return(Tuple{v, f})
	}
	e.Intr["os.ExpandEnv"] = func(c *Call) []*State {
		s := c.argTerm(0)
		if s.Const && !strings.Contains(s.S, "$") {
			return c.Return(s)
		}
		// r = s when s has no '$'; otherwise unconstrained (reads ENV only). The second
		// case depends on the environment's content, which native replay cannot set up:
		// such paths are not used as translator-validation samples.
		r := FreshVar("expandenv", SString, 0)
		has := StrContains(s, StrC("$"))
		c.St.Assume(intCmp("<=", StrLenInt(r), IntC(12))) // stated bound on expanded values
		return c.Outcomes(c.sol2(), []Outcome{{Cond: Not(has), Ret: s}, {Cond: has, Ret: r, Eff: func(st *State) { st.NoReplay = true }}})
	}
	// os.Environ: the variables set by the program itself (the inherited environment is
	// outside the model), a new name appended, an existing one replaced in place, as the
	// runtime does. Exact for constant names only.
	e.Intr["os.Environ"] = func(c *Call) []*State {
		var keys []string
		vals := map[string]*Term{}
		for _, ev := range c.St.World.Env {
			if !ev.Key.Const {
				panic(unsupported("os.Environ after Setenv/Unsetenv with a symbolic variable name"))
			}
			k := ev.Key.S
			if !ev.Set {
				if _, ok := vals[k]; ok {
					delete(vals, k)
					for i, x := range keys {
						if x == k {
							keys = append(keys[:i:i], keys[i+1:]...)
							break
						}
					}
				}
				continue
			}
			if _, ok := vals[k]; !ok {
				keys = append(keys, k)
			}
			vals[k] = ev.Val
		}
		out := make([]Value, 0, len(keys))
		for _, k := range keys {
			out = append(out, StrConcat(StrC(k+"="), vals[k]))
		}
		if len(out) == 0 {
			return c.Return(Slice{})
		}
		return c.Return(e.newSlice(c.St, out))
	}
	// kill(2): a ghost event (pid, signal); negative pid = process group
	e.Intr["syscall.Kill"] = func(c *Call) []*State {
		c.St.Events = append(c.St.Events, Event{Kind: "kill", Args: []Value{c.argTerm(0), c.argTerm(1)}, Thr: c.Th.ID})
		return c.Return(Iface{})
	}
	e.Intr["(*os.Process).Signal"] = func(c *Call) []*State {
		p, ok := c.Args[0].(Ptr)
		if !ok || p.IsNil() {
			return c.Panic("nil-deref", "Signal on nil *os.Process")
		}
		pid := c.St.Load(p).(*Struct).F[0].(*Term) // Pid
		var sig Value = BVC(0, 64)
		if iv, ok := c.Args[1].(Iface); ok && iv.V != nil {
			sig = iv.V
		}
		c.St.Events = append(c.St.Events, Event{Kind: "kill", Args: []Value{pid, sig}, Thr: c.Th.ID})
		return c.Return(Iface{})
	}
	e.Intr["(*os.Process).Kill"] = func(c *Call) []*State {
		p := c.Args[0].(Ptr)
		pid := c.St.Load(p).(*Struct).F[0].(*Term)
		c.St.Events = append(c.St.Events, Event{Kind: "kill", Args: []Value{pid, BVC(9, 64)}, Thr: c.Th.ID})
		return c.Return(Iface{})
	}
	e.Intr["os.Getpid"] = func(c *Call) []*State { return c.Return(BVC(4242, 64)) }
	e.Intr["os.Getwd"] = func(c *Call) []*State { return c.Return(Tuple{StrC("/cwd"), Iface{}}) }
	e.Intr["os.UserHomeDir"] = func(c *Call) []*State { return c.Return(Tuple{StrC("/home/u"), Iface{}}) }
	e.Intr["os.Hostname"] = func(c *Call) []*State { return c.Return(Tuple{StrC("host"), Iface{}}) }
}

// ---------------------------------------------------------------- misc: context

// Context model: every context is Iface{T:*context.valueCtx, V:Ptr{obj}} where
// obj is Struct{parent Iface, key Iface, val Iface, cancel Ptr}. cancel points
// to Struct{done ChanRef, err Iface, parentCancel Ptr}.

func (e *Engine) ctxType() types.Type {
	p := e.Prog.ImportedPackage("context")
	if p == nil {
		panic(unsupported("context package not loaded"))
	}
	return types.NewPointer(p.Type("valueCtx").Type())
}

func (e *Engine) newCtx(st *State, parent, key, val Value, cancel Ptr) Value {
	if parent == nil {
		parent = Iface{}
	}
	if key == nil {
		key = Iface{}
	}
	if val == nil {
		val = Iface{}
	}
	id := st.Alloc(&Struct{F: []Value{parent, key, val, cancel}})
	return Iface{T: e.ctxType(), V: Ptr{Obj: id}}
}

func ctxFields(st *State, v Value) *Struct {
	iv := v.(Iface)
	return st.Load(iv.V.(Ptr)).(*Struct)
}

// ctxCancelPtr finds the nearest cancel record up the chain.
func ctxCancelPtr(st *State, v Value) Ptr {
	for {
		iv, ok := v.(Iface)
		if !ok || iv.T == nil {
			return Ptr{}
		}
		f := ctxFields(st, iv)
		if p := f.F[3].(Ptr); !p.IsNil() {
			return p
		}
		v = f.F[0]
	}
}

func (e *Engine) cancelCtx(st *State, cp Ptr, err Value) {
	rec := st.Load(cp).(*Struct)
	if iv := rec.F[1].(Iface); iv.T != nil {
		return // already canceled
	}
	ch := rec.F[0].(ChanRef)
	co := *st.Heap[ch.Obj].(*ChanObj)
	co.Closed = true
	st.Heap[ch.Obj] = &co
	st.Store(cp, &Struct{F: []Value{ch, err, rec.F[2]}})
	// propagate to children registered in Ghost
	for k, v := range st.Ghost {
		if strings.HasPrefix(k, "ctxchild:"+ptrKey(cp)+":") {
			e.cancelCtx(st, v.(Ptr), err)
		}
	}
}

func (e *Engine) ctxErrGlobal(st *State, name string) Value {
	p := e.Prog.ImportedPackage("context")
	g := p.Var(name)
	return st.Load(Ptr{Obj: e.globalObj(st, g)})
}

func (e *Engine) newCancelRec(st *State, parent Value) Ptr {
	chID := st.Alloc(&ChanObj{Cap: 0, ET: types.NewStruct(nil, nil)})
	id := st.Alloc(&Struct{F: []Value{ChanRef{Obj: chID}, Iface{}, Ptr{}}})
	cp := Ptr{Obj: id}
	if pp := ctxCancelPtr(st, parent); !pp.IsNil() {
		st.Ghost[fmt.Sprintf("ctxchild:%s:%d", ptrKey(pp), id)] = cp
		// parent already canceled?
		if iv := st.Load(pp).(*Struct).F[1].(Iface); iv.T != nil {
			e.cancelCtx(st, cp, iv)
		}
	}
	return cp
}

func (e *Engine) cancelClosure(st *State, cp Ptr) Value {
	// a closure value handled by intrinsic "gosym.cancelFunc" through Opaque binding
	return &Closure{Builtin: "gosym:cancel", Binds: []Value{cp}}
}

func registerMisc(e *Engine) {
	e.Intr["context.Background"] = func(c *Call) []*State { return c.Return(c.E.newCtx(c.St, nil, nil, nil, Ptr{})) }
	e.Intr["context.TODO"] = e.Intr["context.Background"]
	e.Intr["context.WithValue"] = func(c *Call) []*State {
		return c.Return(c.E.newCtx(c.St, c.Args[0], c.Args[1], c.Args[2], Ptr{}))
	}
	e.Intr["context.WithCancel"] = func(c *Call) []*State {
		cp := c.E.newCancelRec(c.St, c.Args[0])
		ctx := c.E.newCtx(c.St, c.Args[0], nil, nil, cp)
		return c.Return(Tuple{ctx, c.E.cancelClosure(c.St, cp)})
	}
	withDeadline := func(c *Call) []*State {
		cp := c.E.newCancelRec(c.St, c.Args[0])
		ctx := c.E.newCtx(c.St, c.Args[0], nil, nil, cp)
		// environment event: deadline expiry
		e := c.E
		id := len(c.St.Timers)
		tm := Timer{ID: id, Armed: true, Order: id, Kind: "ctx-deadline", OnFire: func(s *State) {
			e.cancelCtx(s, cp, e.ctxErrGlobal(s, "DeadlineExceeded"))
		}}
		if c.Fn.Name() == "WithTimeout" {
			// the deadline cannot expire before arm time + duration on the program's own clock
			tm.Dur = c.argTerm(1)
			tm.ArmClock = e.now(c.St)
		}
		c.St.Timers = append(c.St.Timers, tm)
		c.St.Ghost[fmt.Sprintf("ctxtimer:%d", cp.Obj)] = BVC(uint64(id), 64)
		return c.Return(Tuple{ctx, c.E.cancelClosure(c.St, cp)})
	}
	e.Intr["context.WithTimeout"] = withDeadline
	e.Intr["context.WithDeadline"] = withDeadline
	e.Intr["(*context.valueCtx).Value"] = func(c *Call) []*State {
		v := Value(Iface{T: c.E.ctxType(), V: c.Args[0]})
		key := c.Args[1]
		for {
			iv := v.(Iface)
			if iv.T == nil {
				return c.Return(Iface{})
			}
			f := ctxFields(c.St, iv)
			if k := f.F[1].(Iface); k.T != nil {
				eq := c.E.valEq(c.St, k, key)
				if !eq.Const {
					panic(unsupported("context key comparison symbolic"))
				}
				if eq.B {
					return c.Return(f.F[2])
				}
			}
			v = f.F[0]
		}
	}
	e.Intr["(*context.valueCtx).Done"] = func(c *Call) []*State {
		cp := ctxCancelPtr(c.St, Iface{T: c.E.ctxType(), V: c.Args[0]})
		if cp.IsNil() {
			return c.Return(ChanRef{})
		}
		return c.Return(c.St.Load(cp).(*Struct).F[0])
	}
	e.Intr["(*context.valueCtx).Err"] = func(c *Call) []*State {
		cp := ctxCancelPtr(c.St, Iface{T: c.E.ctxType(), V: c.Args[0]})
		if cp.IsNil() {
			return c.Return(Iface{})
		}
		return c.Return(c.St.Load(cp).(*Struct).F[1])
	}
	e.Intr["(*context.valueCtx).Deadline"] = func(c *Call) []*State {
		return c.Return(Tuple{timeVal(BVC(0, 64)), False})
	}
}
