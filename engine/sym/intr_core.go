package sym

import (
	"fmt"
	"sort"
	"go/types"
	"strings"
	"sync/atomic"

	"golang.org/x/tools/go/ssa"
)

func registerIntrinsics(e *Engine) {
	registerHarness(e)
	registerSync(e)
	registerErrFmt(e)
	registerStrings(e)
	registerTime(e)
	registerOS(e)
	registerMisc(e)
	registerRepoStubs(e)
	registerHTTP(e)
	registerFS(e)
	registerRegexp(e)
	registerCron(e)
	registerScanner(e)
	registerJSON(e)
	registerSort(e)
	registerHash(e)
	registerIO(e)
	registerJSONDB(e)
	registerNet(e)
	registerMisc2(e)
	for _, n := range []string{"String", "Int64", "Bool", "Int", "StringValue", "Int64Value", "BoolValue"} {
		allowExecNames["github.com/go-openapi/swag."+n] = true
	}
	allowExecNames["(*errors.errorString).Error"] = true
	allowExecNames["(*fmt.wrapError).Error"] = true
	allowExecNames["(*fmt.wrapError).Unwrap"] = true
	allowExecNames["(*fmt.wrapErrors).Error"] = true
}

func (c *Call) sol2() *Solver {
	if s := c.Solver(); s != nil {
		return s
	}
	panic("no solver bound to thread")
}

func (c *Call) argTerm(i int) *Term { return c.Args[i].(*Term) }

func (c *Call) constStr(i int) string {
	t := c.Args[i].(*Term)
	if !t.Const {
		panic(unsupported(fmt.Sprintf("%s: argument %d must be a constant string", c.Name, i)))
	}
	return t.S
}

func (c *Call) Panic(kind, msg string) []*State {
	c.E.raise(c.St, c.Th, kind, msg, nil)
	return nil
}

// Retry undoes the IP advance so the call is re-executed when the thread resumes.
func (c *Call) Retry() {
	if _, ok := c.Instr.(*ssa.Call); ok {
		c.Th.top().IP--
		return
	}
	panic(unsupported("blocking intrinsic invoked from defer/go: " + c.Name))
}

// withCur merges pre-empted successor states with the result of continuing c.St.
func withCur(c *Call, pre []*State, res []*State) []*State {
	if res == nil {
		return append(pre, c.St)
	}
	return append(pre, res...)
}

// ---------------------------------------------------------------- harness runtime

func registerHarness(e *Engine) {
	e.Intr["harness.vfBool"] = func(c *Call) []*State {
		tag := c.constStr(0)
		v := FreshVar(tag, SBool, 0)
		c.St.Nondets = append(c.St.Nondets, NondetRec{Src: "h", Tag: tag, Kind: "bool", Term: v})
		return c.Return(v)
	}
	e.Intr["harness.vfInt"] = func(c *Call) []*State {
		tag := c.constStr(0)
		v := FreshVar(tag, SBV, 64)
		c.St.Nondets = append(c.St.Nondets, NondetRec{Src: "h", Tag: tag, Kind: "int", Term: v})
		return c.Return(v)
	}
	e.Intr["harness.vfRange"] = func(c *Call) []*State {
		tag := c.constStr(0)
		lo, hi := c.argTerm(1), c.argTerm(2)
		v := FreshVar(tag, SBV, 64)
		c.St.Nondets = append(c.St.Nondets, NondetRec{Src: "h", Tag: tag, Kind: "int", Term: v})
		c.St.Assume(BVSle(lo, v))
		c.St.Assume(BVSle(v, hi))
		return c.Return(v)
	}
	e.Intr["harness.vfString"] = func(c *Call) []*State {
		tag := c.constStr(0)
		mx := c.argTerm(1)
		v := FreshVar(tag, SString, 0)
		c.St.Nondets = append(c.St.Nondets, NondetRec{Src: "h", Tag: tag, Kind: "string", Term: v})
		c.St.Assume(intCmp("<=", StrLenInt(v), BVToInt(mx)))
		return c.Return(v)
	}
	// vfBlob(tag, maxLen): bytes of symbolic length <= maxLen whose content is left arbitrary;
	// only the length is read from the model (solvers do not return 64 KiB string models in
	// reasonable time) and the native replay fills it with 'a'. For harnesses whose labels
	// depend on the length only.
	e.Intr["harness.vfBlob"] = func(c *Call) []*State {
		tag := c.constStr(0)
		mx := c.argTerm(1)
		v := FreshVar(tag, SString, 0)
		MarkBlob(v.S)
		c.St.Nondets = append(c.St.Nondets, NondetRec{Src: "h", Tag: tag, Kind: "bloblen", Term: StrLenInt(v)})
		c.St.Assume(intCmp("<=", StrLenInt(v), BVToInt(mx)))
		return c.Return(v)
	}
	// vfStringN(tag, n): string of exactly n bytes
	e.Intr["harness.vfStringN"] = func(c *Call) []*State {
		tag := c.constStr(0)
		n := c.argTerm(1)
		if !n.Const {
			panic(unsupported("vfStringN with symbolic length"))
		}
		v := FreshVar(tag, SString, 0)
		c.St.Nondets = append(c.St.Nondets, NondetRec{Src: "h", Tag: tag, Kind: "string", Term: v})
		c.St.PC = append(c.St.PC, newTerm(&Term{Kind: SBool, Op: "=", Args: []*Term{newTerm(&Term{Kind: SInt, Op: "str.len", Args: []*Term{v}}), IntC(n.Signed())}}))
		SetFixedLen(v.S, int(n.Signed()))
		return c.Return(v)
	}
	// vfChoice(tag, n): forks n ways, returns concrete 0..n-1
	e.Intr["harness.vfChoice"] = func(c *Call) []*State {
		tag := c.constStr(0)
		n := int(c.argTerm(1).Signed())
		if !c.argTerm(1).Const {
			panic(unsupported("vfChoice with symbolic n"))
		}
		var outs []Outcome
		for i := 0; i < n; i++ {
			i := i
			outs = append(outs, Outcome{Cond: True, Ret: BVC(uint64(i), 64), Eff: func(s *State) {
				s.Nondets = append(s.Nondets, NondetRec{Src: "h", Tag: tag, Kind: "choice", Conc: i})
			}})
		}
		return c.Outcomes(c.sol2(), outs)
	}
	e.Intr["harness.vfAssume"] = func(c *Call) []*State {
		cond := c.argTerm(0)
		if !c.E.Feasible(c.sol2(), c.St, cond) {
			c.E.endPath(c.St, "infeasible")
			return []*State{}
		}
		c.St.Assume(cond)
		return c.Return(nil)
	}
	e.Intr["harness.vfAssert"] = func(c *Call) []*State {
		cond := c.argTerm(0)
		label := c.constStr(1)
		e := c.E
		e.mu.Lock()
		e.AssertSites[label]++
		e.mu.Unlock()
		c.St.Labels = append(c.St.Labels, "A:"+label)
		q := c.St.quick(cond)
		if q == 1 {
			return c.Return(nil)
		}
		sol := c.sol2()
		as := append(append([]*Term{}, c.St.PC...), Not(cond))
		var r Result
		if q == 0 {
			r, _ = sol.Check(c.St.PC, nil)
		} else {
			r, _ = sol.Check(as, nil)
		}
		if r == Unknown && e.Pool2 != nil {
			s2 := e.Pool2.Get()
			if q == 0 {
				r, _ = s2.Check(c.St.PC, nil)
			} else {
				r, _ = s2.Check(as, nil)
			}
			e.Pool2.Put(s2)
			atomic.AddInt64(&e.Fallbacks, 1)
		}
		if r == Unknown && e.SlowPools != nil {
			// last resort for an assertion: both back ends (and z3 5.x) with a 12x time limit
			for _, sp := range e.SlowPools {
				s3 := sp.Get()
				if q == 0 {
					r, _ = s3.Check(c.St.PC, nil)
				} else {
					r, _ = s3.Check(as, nil)
				}
				sp.Put(s3)
				atomic.AddInt64(&e.Fallbacks, 1)
				if r != Unknown {
					break
				}
			}
		}
		atomic.AddInt64(&e.AssertQ[r], 1)
		if len(e.SampleQ) < 4 && r == Unsat {
			e.mu.Lock()
			if len(e.SampleQ) < 4 {
				var b strings.Builder
				b.WriteString(label + ": ")
				for _, a := range as {
					b.WriteString("(assert " + a.SMT() + ") ")
				}
				s := b.String()
				if len(s) > 1500 {
					s = s[:1500] + "..."
				}
				e.SampleQ = append(e.SampleQ, s)
			}
			e.mu.Unlock()
		}
		if r == Sat {
			// confirm inside the ASCII alphabet (the stated string domain)
			var ra Result
			if q == 0 {
				ra, _ = sol.CheckA(c.St.PC, nil, true)
			} else {
				ra, _ = sol.CheckA(as, nil, true)
			}
			if ra == Unknown && e.Pool2 != nil {
				s2 := e.Pool2.Get()
				if q == 0 {
					ra, _ = s2.CheckA(c.St.PC, nil, true)
				} else {
					ra, _ = s2.CheckA(as, nil, true)
				}
				e.Pool2.Put(s2)
			}
			r = ra
		}
		switch r {
		case Unsat:
			c.St.Assume(cond)
			return c.Return(nil)
		case Unknown:
			e.recordViolation(c.St, sol, &Violation{Kind: "unknown", Label: label, Pos: e.curPos(c.St), Msg: "solver returned unknown on assertion"})
			c.St.Assume(cond)
			return c.Return(nil)
		}
		// violated: record with model, continue on the side where cond holds (if feasible)
		model, _ := e.Model(sol, c.St, Not(cond))
		fn := ""
		if c.Fr != nil {
			fn = c.Fr.Info.Fn.String()
		}
		vs := c.St
		e.recordViolation(vs, sol, &Violation{Kind: "assert", Label: label, Pos: e.curPos(c.St), Fn: fn, Model: model})
		if !e.Feasible(sol, c.St, cond) {
			e.endPath(c.St, "assert-failed")
			return []*State{}
		}
		c.St.Assume(cond)
		return c.Return(nil)
	}
	e.Intr["harness.vfReach"] = func(c *Call) []*State {
		label := c.constStr(0)
		c.E.mu.Lock()
		c.E.Reached[label]++
		c.E.mu.Unlock()
		c.St.Labels = append(c.St.Labels, "R:"+label)
		return c.Return(nil)
	}
	e.Intr["harness.vfClass"] = func(c *Call) []*State {
		cl := c.constStr(0)
		for _, x := range c.St.Classes {
			if x == cl {
				return c.Return(nil)
			}
		}
		c.St.Classes = append(c.St.Classes, cl)
		sort.Strings(c.St.Classes)
		return c.Return(nil)
	}
	// vfEvent(kind string, a, b int)
	e.Intr["harness.vfEvent"] = func(c *Call) []*State {
		c.St.Events = append(c.St.Events, Event{Kind: c.constStr(0), Args: c.Args[1:], Thr: c.Th.ID})
		return c.Return(nil)
	}
	// vfCount(kind string, a int) int : number of events of kind whose first arg equals a (a<0: any)
	e.Intr["harness.vfCount"] = func(c *Call) []*State {
		kind := c.constStr(0)
		a := c.argTerm(1)
		cnt := BVC(0, 64)
		for _, ev := range c.St.Events {
			if ev.Kind != kind {
				continue
			}
			if a.Const && a.Signed() < 0 {
				cnt = BVAdd(cnt, BVC(1, 64))
				continue
			}
			if len(ev.Args) > 0 {
				if t, ok := ev.Args[0].(*Term); ok && t.Kind == SBV {
					cnt = BVAdd(cnt, Ite(Eq(t, a), BVC(1, 64), BVC(0, 64)))
				}
			}
		}
		return c.Return(cnt)
	}
	// vfEventIndex(kind, a, nth) int: position in the trace of the nth (0-based) matching event, -1 if none
	e.Intr["harness.vfEventIndex"] = func(c *Call) []*State {
		kind := c.constStr(0)
		a := c.argTerm(1)
		nth := int(c.argTerm(2).Signed())
		k := 0
		for i, ev := range c.St.Events {
			if ev.Kind != kind {
				continue
			}
			if !(a.Const && a.Signed() < 0) {
				t, ok := ev.Args[0].(*Term)
				if !ok || !t.Const || !a.Const || t.U != a.U {
					continue
				}
			}
			if k == nth {
				return c.Return(BVC(uint64(i), 64))
			}
			k++
		}
		return c.Return(BVC(^uint64(0), 64))
	}
	e.Intr["harness.vfLastEventIndex"] = func(c *Call) []*State {
		kind := c.constStr(0)
		a := c.argTerm(1)
		res := int64(-1)
		for i, ev := range c.St.Events {
			if ev.Kind != kind {
				continue
			}
			if !(a.Const && a.Signed() < 0) {
				t, ok := ev.Args[0].(*Term)
				if !ok || !t.Const || !a.Const || t.U != a.U {
					continue
				}
			}
			res = int64(i)
		}
		return c.Return(BVC(uint64(res), 64))
	}
	e.Intr["harness.vfYield"] = func(c *Call) []*State {
		if succ := c.E.yieldPoint(c, c.constStr(0)); succ != nil {
			c.Return(nil)
			return append(succ, c.St)
		}
		return c.Return(nil)
	}
	// vfWaitEvent(label): block until the environment fires this thread's event
	e.Intr["harness.vfWaitEvent"] = func(c *Call) []*State {
		if c.Th.EventFired {
			c.Th.EventFired = false
			return c.Return(nil)
		}
		c.Th.EventFired = true // set so that on wake we pass
		c.Retry()
		c.E.block(c.St, c.Th, &BlockCond{Kind: "event"})
		succ, cont := c.E.schedule(c.St, c.sol2())
		if cont {
			return nil
		}
		return succ
	}
	// vfWaitTurn(kind, a, b): blocks until the environment fires this thread's event;
	// the firing order is recorded (Src "o") so that native replay can reproduce it.
	e.Intr["harness.vfWaitTurn"] = func(c *Call) []*State {
		if c.Th.EventFired {
			c.Th.EventFired = false
			a, b := c.argTerm(1), c.argTerm(2)
			if !a.Const || !b.Const {
				panic(unsupported("vfWaitTurn with symbolic arguments"))
			}
			c.St.Nondets = append(c.St.Nondets, NondetRec{Src: "o", Tag: fmt.Sprintf("turn:%s:%d:%d", c.constStr(0), a.Signed(), b.Signed()), Kind: "choice"})
			return c.Return(nil)
		}
		c.Th.EventFired = true
		c.Retry()
		c.E.block(c.St, c.Th, &BlockCond{Kind: "event", Aux: c.constStr(0)})
		succ, cont := c.E.schedule(c.St, c.sol2())
		if cont {
			return nil
		}
		return succ
	}
	e.Intr["harness.vfRecorded"] = func(c *Call) []*State { return c.Return(Slice{}) }
	// vfCrashable(f) bool: runs f with every mutating file-system operation as a crash
	// point (at most one crash); returns true when the process was killed inside f.
	e.Intr["harness.vfCrashable"] = func(c *Call) []*State {
		gk := fmt.Sprintf("crashable:%d:%d", c.Th.ID, len(c.Th.Frames))
		if _, started := c.St.Ghost[gk]; started {
			delete(c.St.Ghost, gk)
			_, crashed := c.St.Ghost["crash:happened"]
			delete(c.St.Ghost, "crash:happened")
			delete(c.St.Ghost, "crash:armed")
			return c.Return(BoolC(crashed))
		}
		c.St.Ghost[gk] = True
		c.St.Ghost["crash:armed"] = BVC(uint64(len(c.Th.Frames)), 64)
		c.Retry()
		if succ := c.E.invoke(c.St, c.Th, c.Args[0].(*Closure), nil, nil, c.Instr, false); succ != nil {
			panic(unsupported("vfCrashable: body is a forking intrinsic"))
		}
		return nil
	}
	// vfJSON(v) string: an opaque payload token registered with the object it encodes
	e.Intr["harness.vfJSON"] = func(c *Call) []*State {
		n := 0
		for k := range c.St.Ghost {
			if strings.HasPrefix(k, "jsonobj:") {
				n++
			}
		}
		tok := StrC(fmt.Sprintf("{\"json\":%d}", n))
		v := c.Args[0]
		if iv, ok := v.(Iface); ok {
			v = iv.V
		}
		c.St.Ghost["jsonobj:"+tok.S] = v
		return c.Return(tok)
	}
	// vfSock(addr, live, timeout, payload): state of the unix socket at addr
	e.Intr["harness.vfSock"] = func(c *Call) []*State {
		c.St.Ghost["sock:"+c.constStr(0)] = Tuple{c.Args[1], c.Args[2], c.Args[3]}
		return c.Return(nil)
	}
	// vfSockHandler(addr, f): requests to a listener bound at addr (net.Listen model) are answered by f(method, url)
	e.Intr["harness.vfSockHandler"] = func(c *Call) []*State {
		c.St.Ghost["sockhandler:"+c.constStr(0)] = c.Args[1]
		return c.Return(nil)
	}
	// vfSockStale(addr): a socket file left behind by a killed process (nobody listens)
	e.Intr["harness.vfSockStale"] = func(c *Call) []*State {
		c.St.Ghost["sock:"+c.constStr(0)] = Tuple{False, False, StrC(""), True}
		return c.Return(nil)
	}
	e.Intr["harness.vfNative"] = func(c *Call) []*State { return c.Return(False) }
	// vfNoSample(): this path stays in the exploration but is not used as a translator-validation
	// sample (its native run is impractical, e.g. it waits minutes on real timers)
	e.Intr["harness.vfNoSample"] = func(c *Call) []*State {
		c.St.NoReplay = true
		return c.Return(nil)
	}
	e.Intr["harness.vfSetUnwind"] = func(c *Call) []*State { return c.Return(nil) }
	e.Intr["harness.vfGhostSet"] = func(c *Call) []*State {
		c.St.Ghost["g:"+c.constStr(0)] = c.Args[1]
		return c.Return(nil)
	}
	e.Intr["harness.vfGhostGet"] = func(c *Call) []*State {
		v, ok := c.St.Ghost["g:"+c.constStr(0)]
		if !ok {
			return c.Return(BVC(0, 64))
		}
		return c.Return(v)
	}
	// vfThreads(): number of live (not done) threads other than the caller
	e.Intr["harness.vfLiveThreads"] = func(c *Call) []*State {
		n := 0
		for _, t := range c.St.Threads {
			if t.ID != c.Th.ID && t.Status != TDone {
				n++
			}
		}
		return c.Return(BVC(uint64(n), 64))
	}
	// vfConcretize(x, lo, hi) int: fork x into concrete values
	e.Intr["harness.vfConcretize"] = func(c *Call) []*State {
		lo, hi := c.argTerm(1).Signed(), c.argTerm(2).Signed()
		v, succ, ok := c.E.concretize(c.St, c.sol2(), c.argTerm(0), lo, hi)
		if !ok {
			for _, s := range succ {
				s.Threads[c.Th.ID].top().IP--
			}
			return succ
		}
		return c.Return(BVC(uint64(v), 64))
	}
	// vfStrLit(s) string: fork... (identity; for documentation)
	e.Intr["harness.vfNote"] = func(c *Call) []*State { return c.Return(nil) }
}

// ---------------------------------------------------------------- sync

func registerSync(e *Engine) {
	lock := func(c *Call) []*State {
		if succ := c.E.yieldPoint(c, "Lock"); succ != nil {
			// current state continues un-preempted
			return withCur(c, succ, lockNow(c))
		}
		return lockNow(c)
	}
	e.Intr["(*sync.Mutex).Lock"] = lock
	e.Intr["(*sync.Mutex).Unlock"] = func(c *Call) []*State {
		p := c.Args[0].(Ptr)
		k := ptrKey(p)
		ls := c.St.Locks[k]
		if !ls.W {
			return c.Panic("unlock", "sync: unlock of unlocked mutex")
		}
		delete(c.St.Locks, k)
		return c.Return(nil)
	}
	e.Intr["(*sync.Mutex).TryLock"] = func(c *Call) []*State {
		p := c.Args[0].(Ptr)
		k := ptrKey(p)
		if c.St.Locks[k].W {
			return c.Return(False)
		}
		c.St.Locks[k] = LockState{W: true, Owner: c.Th.ID}
		return c.Return(True)
	}
	e.Intr["(*sync.RWMutex).Lock"] = func(c *Call) []*State {
		if succ := c.E.yieldPoint(c, "RW.Lock"); succ != nil {
			return withCur(c, succ, rwLockNow(c))
		}
		return rwLockNow(c)
	}
	e.Intr["(*sync.RWMutex).Unlock"] = func(c *Call) []*State {
		k := ptrKey(c.Args[0].(Ptr))
		ls := c.St.Locks[k]
		if !ls.W {
			return c.Panic("unlock", "sync: Unlock of unlocked RWMutex")
		}
		ls.W = false
		if ls.R == 0 {
			delete(c.St.Locks, k)
		} else {
			c.St.Locks[k] = ls
		}
		return c.Return(nil)
	}
	e.Intr["(*sync.RWMutex).RLock"] = func(c *Call) []*State {
		if succ := c.E.yieldPoint(c, "RLock"); succ != nil {
			return withCur(c, succ, rLockNow(c))
		}
		return rLockNow(c)
	}
	e.Intr["(*sync.RWMutex).RUnlock"] = func(c *Call) []*State {
		k := ptrKey(c.Args[0].(Ptr))
		ls := c.St.Locks[k]
		if ls.R <= 0 {
			return c.Panic("unlock", "sync: RUnlock of unlocked RWMutex")
		}
		ls.R--
		if ls.R == 0 && !ls.W {
			delete(c.St.Locks, k)
		} else {
			c.St.Locks[k] = ls
		}
		return c.Return(nil)
	}
	e.Intr["(*sync.WaitGroup).Add"] = func(c *Call) []*State {
		k := ptrKey(c.Args[0].(Ptr))
		d := c.argTerm(1)
		if !d.Const {
			panic(unsupported("WaitGroup.Add symbolic"))
		}
		c.St.WG[k] += int(d.Signed())
		if c.St.WG[k] < 0 {
			return c.Panic("wg", "sync: negative WaitGroup counter")
		}
		return c.Return(nil)
	}
	e.Intr["(*sync.WaitGroup).Done"] = func(c *Call) []*State {
		k := ptrKey(c.Args[0].(Ptr))
		c.St.WG[k]--
		if c.St.WG[k] < 0 {
			return c.Panic("wg", "sync: negative WaitGroup counter")
		}
		return c.Return(nil)
	}
	e.Intr["(*sync.WaitGroup).Wait"] = func(c *Call) []*State {
		p := c.Args[0].(Ptr)
		if c.St.WG[ptrKey(p)] == 0 {
			return c.Return(nil)
		}
		c.Retry()
		c.E.block(c.St, c.Th, &BlockCond{Kind: "wg", Ptr: p})
		succ, cont := c.E.schedule(c.St, c.sol2())
		if cont {
			return nil
		}
		return succ
	}
	// sync.Once
	e.Intr["(*sync.Once).Do"] = func(c *Call) []*State {
		k := "once:" + ptrKey(c.Args[0].(Ptr))
		if _, done := c.St.Ghost[k]; done {
			return c.Return(nil)
		}
		c.St.Ghost[k] = True
		return c.E.invoke(c.St, c.Th, c.Args[1].(*Closure), nil, nil, c.Instr, false)
	}
	// sync.Map as an insertion-ordered association list
	smap := func(c *Call, create bool) (MapRef, bool) {
		k := ptrKey(c.Args[0].(Ptr))
		id, ok := c.St.SMaps[k]
		if !ok {
			if !create {
				return MapRef{}, false
			}
			anyT := types.NewInterfaceType(nil, nil)
			id = c.St.Alloc(&MapObj{KT: anyT, VT: anyT})
			c.St.SMaps[k] = id
		}
		return MapRef{Obj: id}, true
	}
	e.Intr["(*sync.Map).Store"] = func(c *Call) []*State {
		m, _ := smap(c, true)
		succ := c.E.mapUpdate(c.St, c.sol2(), m, c.Args[1], c.Args[2], func(s *State) {})
		if succ != nil {
			return succ
		}
		return c.Return(nil)
	}
	e.Intr["(*sync.Map).Load"] = func(c *Call) []*State {
		m, ok := smap(c, false)
		if !ok {
			return c.Return(Tuple{Iface{}, False})
		}
		mo := c.St.Heap[m.Obj].(*MapObj)
		var outs []Outcome
		prev := True
		for i, k := range mo.Keys {
			eq := c.E.valEq(c.St, k, c.Args[1])
			outs = append(outs, Outcome{Cond: And(prev, eq), Ret: Tuple{mo.Vals[i], True}})
			prev = And(prev, Not(eq))
		}
		outs = append(outs, Outcome{Cond: prev, Ret: Tuple{Iface{}, False}})
		return c.Outcomes(c.sol2(), outs)
	}
	e.Intr["(*sync.Map).Delete"] = func(c *Call) []*State {
		m, ok := smap(c, false)
		if !ok {
			return c.Return(nil)
		}
		succ := c.E.mapDelete(c.St, c.sol2(), m, c.Args[1], func(s *State) {})
		if succ != nil {
			return succ
		}
		return c.Return(nil)
	}
	// Range(f): calls f(k,v) for each entry until false. Implemented by a tiny
	// driver frame: we unroll by pushing calls one at a time via ghost index.
	e.Intr["(*sync.Map).Range"] = func(c *Call) []*State {
		m, ok := smap(c, false)
		if !ok {
			return c.Return(nil)
		}
		mo := c.St.Heap[m.Obj].(*MapObj)
		if len(mo.Keys) == 0 {
			return c.Return(nil)
		}
		return c.E.iterCall(c, c.Args[1].(*Closure), mo.Keys, mo.Vals)
	}
	// atomics
	for _, w := range []struct {
		n string
		w int
	}{{"Int32", 32}, {"Int64", 64}, {"Uint32", 32}, {"Uint64", 64}} {
		w := w
		e.Intr["(*sync/atomic."+w.n+").Load"] = func(c *Call) []*State {
			return c.Return(atomicCell(c, w.w))
		}
		e.Intr["(*sync/atomic."+w.n+").Store"] = func(c *Call) []*State {
			atomicSet(c, c.argTerm(1))
			return c.Return(nil)
		}
		e.Intr["(*sync/atomic."+w.n+").Add"] = func(c *Call) []*State {
			v := BVAdd(atomicCell(c, w.w), c.argTerm(1))
			atomicSet(c, v)
			return c.Return(v)
		}
		e.Intr["(*sync/atomic."+w.n+").CompareAndSwap"] = func(c *Call) []*State {
			cur := atomicCell(c, w.w)
			eq := Eq(cur, c.argTerm(1))
			atomicSet(c, Ite(eq, c.argTerm(2), cur))
			return c.Return(eq)
		}
	}
	e.Intr["(*sync/atomic.Bool).Load"] = func(c *Call) []*State {
		v, ok := c.St.Ghost["atomic:"+ptrKey(c.Args[0].(Ptr))]
		if !ok {
			return c.Return(False)
		}
		return c.Return(v)
	}
	e.Intr["(*sync/atomic.Bool).Store"] = func(c *Call) []*State {
		c.St.Ghost["atomic:"+ptrKey(c.Args[0].(Ptr))] = c.Args[1]
		return c.Return(nil)
	}
	e.Intr["sync/atomic.LoadInt32"] = func(c *Call) []*State { return c.Return(c.St.Load(c.Args[0].(Ptr))) }
	e.Intr["sync/atomic.StoreInt32"] = func(c *Call) []*State {
		c.St.Store(c.Args[0].(Ptr), c.Args[1])
		return c.Return(nil)
	}
	e.Intr["sync/atomic.AddInt32"] = func(c *Call) []*State {
		p := c.Args[0].(Ptr)
		v := BVAdd(c.St.Load(p).(*Term), c.argTerm(1))
		c.St.Store(p, v)
		return c.Return(v)
	}
}

func atomicCell(c *Call, w int) *Term {
	v, ok := c.St.Ghost["atomic:"+ptrKey(c.Args[0].(Ptr))]
	if !ok {
		return BVC(0, w)
	}
	return v.(*Term)
}
func atomicSet(c *Call, v *Term) { c.St.Ghost["atomic:"+ptrKey(c.Args[0].(Ptr))] = v }

func lockNow(c *Call) []*State {
	p := c.Args[0].(Ptr)
	k := ptrKey(p)
	if c.St.Locks[k].W {
		c.Retry()
		c.E.block(c.St, c.Th, &BlockCond{Kind: "mutex", Ptr: p})
		succ, cont := c.E.schedule(c.St, c.sol2())
		if cont {
			return nil
		}
		return succ
	}
	c.St.Locks[k] = LockState{W: true, Owner: c.Th.ID}
	return c.Return(nil)
}

func rwLockNow(c *Call) []*State {
	p := c.Args[0].(Ptr)
	k := ptrKey(p)
	ls := c.St.Locks[k]
	if ls.W || ls.R > 0 {
		c.Retry()
		c.E.block(c.St, c.Th, &BlockCond{Kind: "mutex", Ptr: p})
		succ, cont := c.E.schedule(c.St, c.sol2())
		if cont {
			return nil
		}
		return succ
	}
	c.St.Locks[k] = LockState{W: true, Owner: c.Th.ID}
	return c.Return(nil)
}

func rLockNow(c *Call) []*State {
	p := c.Args[0].(Ptr)
	k := ptrKey(p)
	ls := c.St.Locks[k]
	if ls.W {
		c.Retry()
		c.E.block(c.St, c.Th, &BlockCond{Kind: "rlock", Ptr: p})
		succ, cont := c.E.schedule(c.St, c.sol2())
		if cont {
			return nil
		}
		return succ
	}
	ls.R++
	c.St.Locks[k] = ls
	return c.Return(nil)
}

func (e *Engine) mutexLocked(st *State, p Ptr) bool {
	ls := st.Locks[ptrKey(p)]
	return ls.W || ls.R > 0
}
func (e *Engine) mutexWLocked(st *State, p Ptr) bool { return st.Locks[ptrKey(p)].W }
func (e *Engine) wgZero(st *State, p Ptr) bool      { return st.WG[ptrKey(p)] == 0 }

// iterCall invokes f(k_i, v_i) sequentially while it returns true. It is
// implemented with a per-thread iteration record re-entered after each call
// returns (the call instruction is retried with progress kept in Ghost).
func (e *Engine) iterCall(c *Call, f *Closure, keys, vals []Value) []*State {
	gk := fmt.Sprintf("iter:%d:%d", c.Th.ID, len(c.Th.Frames))
	idx := 0
	if v, ok := c.St.Ghost[gk]; ok {
		idx = int(v.(*Term).U)
		// result of previous call is in ghost slot written by callback wrapper
		if r, ok := c.St.Ghost[gk+":ret"]; ok {
			if rt, ok := r.(*Term); ok && rt.Const && !rt.B {
				delete(c.St.Ghost, gk)
				delete(c.St.Ghost, gk+":ret")
				return c.Return(nil)
			}
		}
	}
	if idx >= len(keys) {
		delete(c.St.Ghost, gk)
		delete(c.St.Ghost, gk+":ret")
		return c.Return(nil)
	}
	c.St.Ghost[gk] = BVC(uint64(idx+1), 64)
	c.Retry() // come back to this call after f returns
	// push f's frame; its return value is captured through OnRet
	n := len(c.Th.Frames)
	succ := e.invoke(c.St, c.Th, f, []Value{keys[idx], vals[idx]}, nil, c.Instr, false)
	if succ != nil {
		panic(unsupported("iterCall: callback is a forking intrinsic"))
	}
	if len(c.Th.Frames) > n {
		c.Th.top().OnRet = gk + ":ret"
	}
	return nil
}
