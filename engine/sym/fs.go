package sym

// FSWorld: record-structured file system model (see fsmodel.go once built).
type FSWorld struct {
	Files []FSFile
}

type FSFile struct {
	Path    *Term
	Exists  bool
	IsDir   bool
	Records []*Term // complete lines (without newline)
	Tail    *Term   // torn partial record or nil
	MTime   *Term
}

func (f *FSWorld) Clone() *FSWorld {
	nf := &FSWorld{Files: make([]FSFile, len(f.Files))}
	copy(nf.Files, f.Files)
	for i := range nf.Files {
		nf.Files[i].Records = append([]*Term(nil), f.Files[i].Records...)
	}
	return nf
}
