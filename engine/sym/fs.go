package sym

import (
	"fmt"
	"go/types"
	"path/filepath"
	"sort"
	"strings"
	"sync/atomic"
)

// File-system world (DESIGN.md 3.2). Files are entries (path term, exists, dir flag,
// content as a list of chunks, mtime). Content chunks are string terms; a chunk is
// either complete or - only after a crash in the middle of a write - a torn prefix.
// Every mutating operation is a crash point when a crashable region is armed.

type FSFile struct {
	Path   *Term
	Exists bool
	IsDir  bool
	Data   []*Term // content = concatenation of the chunks
	Torn   bool    // last chunk is a torn prefix of what was being written
	MTime  *Term
}

type FSWorld struct {
	Files []FSFile
	Ops   int // mutating operations performed (crash points passed)
}

func (f *FSWorld) Clone() *FSWorld {
	nf := &FSWorld{Files: make([]FSFile, len(f.Files)), Ops: f.Ops}
	copy(nf.Files, f.Files)
	for i := range nf.Files {
		nf.Files[i].Data = append([]*Term(nil), f.Files[i].Data...)
	}
	return nf
}

func (st *State) fs() *FSWorld {
	if st.World.FS == nil {
		st.World.FS = &FSWorld{}
	}
	return st.World.FS
}

type fileHandle struct {
	File     int
	Append   bool
	ReadOnly bool
	Closed   bool
	Name     *Term
	RdChunk  int // read position (chunk index) for sequential reads
}

// ---- errors

func (e *Engine) fsError(st *State, kind, msg string) Value {
	v := e.newErrorString(st, StrC(msg)).(Iface)
	st.Ghost["fserr:"+ptrKey(v.V.(Ptr))] = StrC(kind)
	return v
}

func fsErrKind(st *State, v Value) string {
	iv, ok := v.(Iface)
	if !ok || iv.T == nil {
		return ""
	}
	for {
		p, ok := iv.V.(Ptr)
		if !ok {
			return ""
		}
		if k, ok := st.Ghost["fserr:"+ptrKey(p)]; ok {
			return k.(*Term).S
		}
		// unwrap fmt.Errorf("%w") wrappers
		s, ok := st.Heap[p.Obj].(*Struct)
		if !ok || len(s.F) < 2 {
			return ""
		}
		inner, ok := s.F[1].(Iface)
		if !ok || inner.T == nil {
			return ""
		}
		iv = inner
	}
}

// ---- path resolution: forks on aliasing between a symbolic path and the entries

// fsResolve runs f(st, idx) for the entry whose path equals `path` (idx = -1: no entry),
// forking when the equality is not decided. f returns the call's return value.
func (e *Engine) fsResolve(c *Call, path *Term, f func(st *State, idx int) Value) []*State {
	fsw := c.St.fs()
	type alt struct {
		cond *Term
		idx  int
	}
	var alts []alt
	none := True
	for i, fl := range fsw.Files {
		eq := Eq(fl.Path, path)
		if eq.Const {
			if eq.B {
				alts = append(alts, alt{none, i})
				none = False
				break
			}
			continue
		}
		alts = append(alts, alt{And(none, eq), i})
		none = And(none, Not(eq))
	}
	if !(none.Const && !none.B) {
		alts = append(alts, alt{none, -1})
	}
	if len(alts) == 1 && alts[0].cond.Const {
		return c.Return(f(c.St, alts[0].idx))
	}
	var outs []Outcome
	for _, a := range alts {
		a := a
		outs = append(outs, Outcome{Cond: a.cond, Eff: func(st *State) {
			v := f(st, a.idx)
			if c.RetTo != nil {
				if v == nil {
					v = Tuple{}
				}
				e.setLocal(st.Threads[c.Th.ID].top(), c.RetTo, v)
			}
		}})
	}
	return c.outcomesNoRet(c.sol2(), outs)
}

func (st *State) fsAdd(path *Term, isDir bool, mtime *Term) int {
	fsw := st.fs()
	fsw.Files = append(fsw.Files, FSFile{Path: path, Exists: true, IsDir: isDir, MTime: mtime})
	return len(fsw.Files) - 1
}

// mtime of a modification: a fresh non-decreasing instant
func (e *Engine) fsTouch(st *State, idx int) {
	st.fs().Files[idx].MTime = e.now(st)
}

func (e *Engine) fsContent(st *State, idx int) *Term {
	return StrConcat(st.fs().Files[idx].Data...)
}

// ---- crash points

// crashPoint is called before a mutating operation takes effect. When a crashable
// region is armed it returns an extra state in which the process was killed here.
func (e *Engine) crashPoint(c *Call, label string) []*State {
	st := c.St
	st.fs().Ops++
	base, armed := st.Ghost["crash:armed"]
	if !armed {
		return nil
	}
	cr := st.Clone()
	cr.ID = int(atomic.AddInt32(&e.stateCtr, 1))
	e.crashNow(cr, cr.Threads[c.Th.ID], int(base.(*Term).U), label)
	return []*State{cr}
}

// crashNow kills the process: frames above the crashable region are dropped without
// running deferred calls, locks vanish, the region reports crashed=true.
func (e *Engine) crashNow(st *State, th *Thread, depth int, label string) {
	th.Frames = th.Frames[:depth]
	th.Panic = nil
	st.Locks = map[string]LockState{}
	st.WG = map[string]int{}
	delete(st.Ghost, "crash:armed")
	st.Ghost["crash:happened"] = StrC(label)
	st.Crashed = true
	st.NoReplay = true
	st.Events = append(st.Events, Event{Kind: "crash", Args: []Value{StrC(label)}, Thr: th.ID})
	st.Nondets = append(st.Nondets, NondetRec{Tag: "crash@" + label, Kind: "choice", Conc: st.fs().Ops})
	// other threads die with the process
	for _, t := range st.Threads {
		if t.ID != th.ID {
			t.Status = TDone
			t.Frames = nil
		}
	}
}

// withCrash prepends the crashed alternative to the result of continuing.
func withCrash(c *Call, crashed []*State, res []*State) []*State {
	if len(crashed) == 0 {
		return res
	}
	if res == nil {
		return append(crashed, c.St)
	}
	return append(crashed, res...)
}

// ---- values

func (e *Engine) osType(name string) types.Type {
	p := e.Prog.ImportedPackage("os")
	if p == nil {
		panic(unsupported("package os not loaded"))
	}
	return p.Type(name).Type()
}

func (e *Engine) newFileInfo(st *State, idx int) Value {
	f := st.fs().Files[idx]
	id := st.Alloc(Opaque{Kind: "fileinfo", Data: f})
	return Iface{T: types.NewPointer(e.osType("fileStat")), V: Ptr{Obj: id}}
}

func (e *Engine) newFile(st *State, h fileHandle) Value {
	id := st.Alloc(Opaque{Kind: "os.File", Data: h})
	return Ptr{Obj: id}
}

func handleOf(st *State, v Value) (int, fileHandle, bool) {
	p, ok := v.(Ptr)
	if !ok || p.IsNil() {
		return 0, fileHandle{}, false
	}
	o, ok := st.Heap[p.Obj].(Opaque)
	if !ok || o.Kind != "os.File" {
		return 0, fileHandle{}, false
	}
	return p.Obj, o.Data.(fileHandle), true
}

func (e *Engine) bytesTerm(st *State, v Value) *Term {
	switch x := v.(type) {
	case Bytes:
		return x.S
	case *Term:
		return x
	case Slice:
		if x.Len == 0 {
			return StrC("")
		}
		return e.bytesAsString(st, v)
	}
	panic(unsupported(fmt.Sprintf("bytesTerm of %T", v)))
}

// fsWrite appends data to file idx (crash point: the write may be torn at any prefix).
func (e *Engine) fsAppend(c *Call, idx int, data *Term) []*State {
	crashed := e.crashPoint(c, "write")
	for _, cr := range crashed {
		// torn write: an arbitrary proper prefix of data reached the file
		pre := FreshVar("torn", SString, 0)
		cr.Nondets = append(cr.Nondets, NondetRec{Tag: "torn.prefix", Kind: "string", Term: pre})
		cr.Assume(StrPrefixOf(pre, data))
		cr.Assume(Not(Eq(pre, data)))
		f := &cr.fs().Files[idx]
		f.Data = append(f.Data, pre)
		f.Torn = true
	}
	f := &c.St.fs().Files[idx]
	f.Data = append(f.Data, data)
	e.fsTouch(c.St, idx)
	return crashed
}

func registerFSWorld(e *Engine) {
	notExist := func(st *State, op string, path *Term) Value {
		return e.fsError(st, "notexist", op+": no such file or directory")
	}
	e.Intr["os.IsNotExist"] = func(c *Call) []*State {
		return c.Return(BoolC(fsErrKind(c.St, c.Args[0]) == "notexist"))
	}
	e.Intr["os.IsExist"] = func(c *Call) []*State {
		return c.Return(BoolC(fsErrKind(c.St, c.Args[0]) == "exist"))
	}
	e.Intr["os.Stat"] = func(c *Call) []*State {
		return e.fsResolve(c, c.argTerm(0), func(st *State, idx int) Value {
			if idx < 0 || !st.fs().Files[idx].Exists {
				return Tuple{Iface{}, notExist(st, "stat", c.argTerm(0))}
			}
			return Tuple{e.newFileInfo(st, idx), Iface{}}
		})
	}
	e.Intr["os.Lstat"] = e.Intr["os.Stat"]
	// os.Chtimes(path, atime, mtime): sets the modification time (used by harnesses to age files)
	e.Intr["os.Chtimes"] = func(c *Call) []*State {
		mt := timeExt(c.Args[2])
		return e.fsResolve(c, c.argTerm(0), func(st *State, idx int) Value {
			if idx < 0 || !st.fs().Files[idx].Exists {
				return notExist(st, "chtimes", c.argTerm(0))
			}
			st.fs().Files[idx].MTime = mt
			return Iface{}
		})
	}
	fi := func(c *Call) FSFile { return c.St.Heap[c.Args[0].(Ptr).Obj].(Opaque).Data.(FSFile) }
	e.Intr["(*os.fileStat).ModTime"] = func(c *Call) []*State { return c.Return(timeVal(fi(c).MTime)) }
	e.Intr["(*os.fileStat).IsDir"] = func(c *Call) []*State { return c.Return(BoolC(fi(c).IsDir)) }
	e.Intr["(*os.fileStat).Name"] = func(c *Call) []*State { return c.Return(e.baseSym(c.St, fi(c).Path)) }
	e.Intr["(*os.fileStat).Size"] = func(c *Call) []*State {
		return c.Return(StrLen(StrConcat(fi(c).Data...), 64))
	}
	e.Intr["os.MkdirAll"] = func(c *Call) []*State {
		return e.fsResolve(c, c.argTerm(0), func(st *State, idx int) Value {
			if idx >= 0 && st.fs().Files[idx].Exists {
				if !st.fs().Files[idx].IsDir {
					return e.fsError(st, "notdir", "mkdir: not a directory")
				}
				return Iface{}
			}
			st.fs().Ops++
			if idx >= 0 {
				f := &st.fs().Files[idx]
				f.Exists, f.IsDir, f.Data = true, true, nil
			} else {
				st.fsAdd(c.argTerm(0), true, e.now(st))
			}
			return Iface{}
		})
	}
	// os.WriteFile = open(O_CREATE|O_TRUNC) ; write ; close : crash points before the
	// truncation and in the middle of the write
	e.Intr["os.WriteFile"] = func(c *Call) []*State {
		path := c.argTerm(0)
		data := e.bytesTerm(c.St, c.Args[1])
		crashed := e.crashPoint(c, "writefile-open")
		res := e.fsResolve(c, path, func(st *State, idx int) Value {
			if idx < 0 {
				idx = st.fsAdd(path, false, e.now(st))
			}
			f := &st.fs().Files[idx]
			if f.Exists && f.IsDir {
				return e.fsError(st, "isdir", "write: is a directory")
			}
			f.Exists, f.IsDir, f.Data, f.Torn = true, false, nil, false
			// crash after truncation, before / in the middle of the write
			if base, armed := st.Ghost["crash:armed"]; armed {
				cr := st.Clone()
				cr.ID = int(atomic.AddInt32(&e.stateCtr, 1))
				pre := FreshVar("torn", SString, 0)
				cr.Nondets = append(cr.Nondets, NondetRec{Tag: "torn.prefix", Kind: "string", Term: pre})
				cr.Assume(StrPrefixOf(pre, data))
				cr.Assume(Not(Eq(pre, data)))
				cf := &cr.fs().Files[idx]
				cf.Data, cf.Torn = []*Term{pre}, true
				e.crashNow(cr, cr.Threads[c.Th.ID], int(base.(*Term).U), "writefile-write")
				st.Ghost["crash:pending"] = Opaque{Kind: "states", Data: []*State{cr}}
			}
			st.fs().Ops++
			f.Data = []*Term{data}
			e.fsTouch(st, idx)
			return Iface{}
		})
		// collect crash variants created inside the resolver
		collect := func(states []*State) []*State {
			var out []*State
			for _, s := range states {
				if p, ok := s.Ghost["crash:pending"]; ok {
					delete(s.Ghost, "crash:pending")
					out = append(out, p.(Opaque).Data.([]*State)...)
				}
			}
			return out
		}
		if res == nil {
			extra := collect([]*State{c.St})
			return withCrash(c, append(crashed, extra...), nil)
		}
		extra := collect(res)
		return append(append(crashed, extra...), res...)
	}
	e.Intr["os.ReadFile"] = func(c *Call) []*State {
		return e.fsResolve(c, c.argTerm(0), func(st *State, idx int) Value {
			if idx < 0 || !st.fs().Files[idx].Exists {
				return Tuple{Slice{}, notExist(st, "open", c.argTerm(0))}
			}
			return Tuple{Bytes{S: e.fsContent(st, idx)}, Iface{}}
		})
	}
	e.Intr["os.Remove"] = func(c *Call) []*State {
		crashed := e.crashPoint(c, "remove")
		res := e.fsResolve(c, c.argTerm(0), func(st *State, idx int) Value {
			if idx < 0 || !st.fs().Files[idx].Exists {
				return notExist(st, "remove", c.argTerm(0))
			}
			st.fs().Files[idx].Exists = false
			st.fs().Files[idx].Data = nil
			if p := st.fs().Files[idx].Path; p.Const {
				// unlinking a bound unix socket orphans its listener: nobody can connect through the path any more
				delete(st.Ghost, "listening:"+p.S)
			}
			return Iface{}
		})
		return withCrash(c, crashed, res)
	}
	// os.Rename(old, new): atomic; replaces an existing target
	e.Intr["os.Rename"] = func(c *Call) []*State {
		oldp, newp := c.argTerm(0), c.argTerm(1)
		// two-level resolution: old, then new
		gk := fmt.Sprintf("rename:%d:%d", c.Th.ID, len(c.Th.Frames))
		if v, ok := c.St.Ghost[gk]; ok {
			// second entry: old index decided
			oi := int(v.(*Term).Signed())
			delete(c.St.Ghost, gk)
			res := e.fsResolve(c, newp, func(st *State, ni int) Value {
				fsw := st.fs()
				src := fsw.Files[oi]
				if ni >= 0 && ni != oi {
					fsw.Files[ni].Exists, fsw.Files[ni].IsDir, fsw.Files[ni].Data, fsw.Files[ni].Torn, fsw.Files[ni].MTime = true, src.IsDir, src.Data, src.Torn, src.MTime
				} else if ni < 0 {
					fsw.Files = append(fsw.Files, FSFile{Path: newp, Exists: true, IsDir: src.IsDir, Data: src.Data, Torn: src.Torn, MTime: src.MTime})
				}
				if ni != oi {
					fsw.Files[oi].Exists = false
					fsw.Files[oi].Data = nil
				}
				return Iface{}
			})
			return res // crash point was taken on the first entry
		}
		crashed := e.crashPoint(c, "rename")
		res := e.fsResolve(c, oldp, func(st *State, oi int) Value {
			if oi < 0 || !st.fs().Files[oi].Exists {
				return notExist(st, "rename", oldp)
			}
			st.Ghost[gk] = BVC(uint64(oi), 64)
			st.Threads[c.Th.ID].top().IP-- // re-enter to resolve the target
			return nil
		})
		return withCrash(c, crashed, res)
	}
	// os.ReadDir(dir): entries directly under dir, by name (paths must be concrete)
	e.Intr["os.ReadDir"] = func(c *Call) []*State {
		dir := c.constStr(0)
		var names []string
		isDir := map[string]bool{}
		found := false
		for _, f := range c.St.fs().Files {
			if !f.Exists {
				continue
			}
			if !f.Path.Const {
				panic(unsupported("os.ReadDir with symbolic file names present"))
			}
			if f.Path.S == dir && f.IsDir {
				found = true
			}
			if filepath.Dir(f.Path.S) == dir && f.Path.S != dir {
				names = append(names, filepath.Base(f.Path.S))
				isDir[filepath.Base(f.Path.S)] = f.IsDir
			}
		}
		if !found {
			return c.Return(Tuple{Slice{}, notExist(c.St, "open", c.argTerm(0))})
		}
		sort.Strings(names)
		det := types.NewPointer(e.osType("unixDirent"))
		vals := make([]Value, len(names))
		for i, n := range names {
			id := c.St.Alloc(Opaque{Kind: "dirent", Data: [2]interface{}{n, isDir[n]}})
			vals[i] = Iface{T: det, V: Ptr{Obj: id}}
		}
		if len(vals) == 0 {
			return c.Return(Tuple{Slice{}, Iface{}})
		}
		return c.Return(Tuple{e.newSlice(c.St, vals), Iface{}})
	}
	de := func(c *Call) [2]interface{} {
		return c.St.Heap[c.Args[0].(Ptr).Obj].(Opaque).Data.([2]interface{})
	}
	e.Intr["(*os.unixDirent).Name"] = func(c *Call) []*State { return c.Return(StrC(de(c)[0].(string))) }
	e.Intr["(*os.unixDirent).IsDir"] = func(c *Call) []*State { return c.Return(BoolC(de(c)[1].(bool))) }

	// ---- file handles
	openFile := func(c *Call, path *Term, create, trunc, appendMode, readOnly, excl bool) []*State {
		var crashed []*State
		if create || trunc {
			crashed = e.crashPoint(c, "open")
		}
		res := e.fsResolve(c, path, func(st *State, idx int) Value {
			exists := idx >= 0 && st.fs().Files[idx].Exists
			if !exists && !create {
				return Tuple{Ptr{}, notExist(st, "open", path)}
			}
			if exists && excl {
				return Tuple{Ptr{}, e.fsError(st, "exist", "open: file exists")}
			}
			if !exists {
				if idx < 0 {
					idx = st.fsAdd(path, false, e.now(st))
				} else {
					f := &st.fs().Files[idx]
					f.Exists, f.IsDir, f.Data, f.Torn = true, false, nil, false
					e.fsTouch(st, idx)
				}
			} else if trunc {
				f := &st.fs().Files[idx]
				f.Data, f.Torn = nil, false
				e.fsTouch(st, idx)
			}
			return Tuple{e.newFile(st, fileHandle{File: idx, Append: appendMode, ReadOnly: readOnly, Name: path}), Iface{}}
		})
		return withCrash(c, crashed, res)
	}
	e.Intr["os.Create"] = func(c *Call) []*State { return openFile(c, c.argTerm(0), true, true, false, false, false) }
	e.Intr["os.Open"] = func(c *Call) []*State { return openFile(c, c.argTerm(0), false, false, false, true, false) }
	e.Intr["os.OpenFile"] = func(c *Call) []*State {
		fl := c.argTerm(1)
		if !fl.Const {
			panic(unsupported("os.OpenFile with symbolic flags"))
		}
		flag := int(fl.Signed())
		const (
			oWRONLY = 0x1
			oRDWR   = 0x2
			oAPPEND = 0x400
			oCREATE = 0x40
			oEXCL   = 0x80
			oTRUNC  = 0x200
		)
		return openFile(c, c.argTerm(0), flag&oCREATE != 0, flag&oTRUNC != 0, flag&oAPPEND != 0, flag&(oWRONLY|oRDWR) == 0, flag&oEXCL != 0)
	}
	fileWrite := func(c *Call, data *Term) []*State {
		obj, h, ok := handleOf(c.St, c.Args[0])
		if !ok {
			return c.Panic("nil-deref", "write on nil *os.File")
		}
		if h.Closed {
			return c.Return(Tuple{BVC(0, 64), e.fsError(c.St, "closed", "write: file already closed")})
		}
		if !h.Append {
			// positional write (file opened without O_APPEND): overwrites from the handle's offset
			f := &c.St.fs().Files[h.File]
			old := StrConcat(f.Data...)
			if !(old.Const && old.S == "") {
				if !old.Const || !data.Const {
					if h.RdChunk != 0 {
						panic(unsupported("positional write at a non-zero offset over symbolic content"))
					}
					crashed := e.crashPoint(c, "write")
					for _, cr := range crashed {
						pre := FreshVar("torn", SString, 0)
						cr.Nondets = append(cr.Nondets, NondetRec{Tag: "torn.prefix", Kind: "string", Term: pre})
						cr.Assume(StrPrefixOf(pre, data))
						cr.Assume(Not(Eq(pre, data)))
						cf := &cr.fs().Files[h.File]
						lp, lo := StrLenInt(pre), StrLenInt(old)
						cf.Data = []*Term{Ite(intCmp("<", lp, lo), StrConcat(pre, StrSubstr(old, lp, intArith("-", lo, lp))), pre)}
						cf.Torn = true
					}
					ld, lo := StrLenInt(data), StrLenInt(old)
					f.Data = []*Term{Ite(intCmp("<", ld, lo), StrConcat(data, StrSubstr(old, ld, intArith("-", lo, ld))), data)}
					e.fsTouch(c.St, h.File)
					c.Return(Tuple{StrLen(data, 64), Iface{}})
					return withCrash(c, crashed, nil)
				}
				crashed := e.crashPoint(c, "write")
				for _, cr := range crashed {
					// torn positional write: a proper prefix of data replaced the head of the file
					pre := FreshVar("torn", SString, 0)
					cr.Nondets = append(cr.Nondets, NondetRec{Tag: "torn.prefix", Kind: "string", Term: pre})
					cr.Assume(StrPrefixOf(pre, data))
					cr.Assume(Not(Eq(pre, data)))
					cf := &cr.fs().Files[h.File]
					cf.Data = []*Term{pre, StrSubstr(old, StrLenInt(pre), intArith("-", StrLenInt(old), StrLenInt(pre)))}
					cf.Torn = true
				}
				pos := h.RdChunk // byte offset of this handle for positional writes
				ns := old.S
				if pos > len(ns) {
					pos = len(ns)
				}
				end := pos + len(data.S)
				tail := ""
				if end < len(ns) {
					tail = ns[end:]
				}
				f.Data = []*Term{StrC(ns[:pos] + data.S + tail)}
				h.RdChunk = end
				c.St.Heap[obj] = Opaque{Kind: "os.File", Data: h}
				e.fsTouch(c.St, h.File)
				c.Return(Tuple{StrLen(data, 64), Iface{}})
				return withCrash(c, crashed, nil)
			}
		}
		if pf := c.St.fs().Files[h.File].Path; pf.Const && strings.HasPrefix(pf.S, "pipe:[") && c.St.Ghost[fmt.Sprintf("pipedrain:%d", h.File)] == nil {
			// a pipe holds at most 64 KiB; a write beyond that blocks until somebody reads it
			// (a thread inside io.Copy on the read end drains it; without one: forever)
			gk := fmt.Sprintf("pipewrite:%d:%d", c.Th.ID, len(c.Th.Frames))
			if _, decided := c.St.Ghost[gk]; !decided {
				total := intArith("+", StrLenInt(StrConcat(c.St.fs().Files[h.File].Data...)), StrLenInt(data))
				over := intCmp(">", total, IntC(65536))
				fidx := h.File
				return c.outcomesNoRet(c.sol2(), []Outcome{
					{Cond: Not(over), Eff: func(st *State) { st.Ghost[gk] = True; st.Threads[c.Th.ID].top().IP-- }},
					{Cond: over, Eff: func(st *State) {
						th := st.Threads[c.Th.ID]
						th.top().IP--
						st.Events = append(st.Events, Event{Kind: "pipe-full", Args: []Value{pf}, Thr: th.ID})
						e.block(st, th, &BlockCond{Kind: "pipe-drain", Obj: fidx})
					}},
				})
			}
			delete(c.St.Ghost, gk)
		}
		crashed := e.fsAppend(c, h.File, data)
		if !h.Append && data.Const {
			h.RdChunk += len(data.S)
			c.St.Heap[obj] = Opaque{Kind: "os.File", Data: h}
		}
		c.Return(Tuple{StrLen(data, 64), Iface{}})
		return withCrash(c, crashed, nil)
	}
	e.Intr["(*os.File).Write"] = func(c *Call) []*State { return fileWrite(c, e.bytesTerm(c.St, c.Args[1])) }
	e.Intr["(*os.File).WriteString"] = func(c *Call) []*State { return fileWrite(c, c.argTerm(1)) }
	e.Intr["(*os.File).Sync"] = func(c *Call) []*State { return c.Return(Iface{}) }
	// ReadAt(b, off): len(b) bytes of the current content at off; io.EOF when the range passes the end
	e.Intr["(*os.File).ReadAt"] = func(c *Call) []*State {
		_, h, ok := handleOf(c.St, c.Args[0])
		if !ok {
			return c.Panic("nil-deref", "ReadAt on nil *os.File")
		}
		b := c.Args[1].(Slice)
		off := BVToInt(c.argTerm(2))
		data := StrConcat(c.St.fs().Files[h.File].Data...)
		inRange := And(intCmp(">=", off, IntC(0)), intCmp("<=", intArith("+", off, IntC(int64(b.Len))), StrLenInt(data)))
		eof := e.fsError(c.St, "eof", "EOF")
		return c.Outcomes(c.sol2(), []Outcome{
			{Cond: inRange, Ret: Tuple{BVC(uint64(b.Len), 64), Iface{}}, Eff: func(st *State) {
				d := StrConcat(st.fs().Files[h.File].Data...)
				for i := 0; i < b.Len; i++ {
					ch := StrAt(d, intArith("+", off, IntC(int64(i))))
					st.Store(Ptr{Obj: b.Obj, Path: []int{b.Off + i}}, IntToBV(StrToCode(ch), 8))
				}
			}},
			{Cond: Not(inRange), Ret: Tuple{BVC(0, 64), eof}},
		})
	}
	e.Intr["(*os.File).Stat"] = func(c *Call) []*State {
		_, h, ok := handleOf(c.St, c.Args[0])
		if !ok {
			return c.Panic("nil-deref", "Stat on nil *os.File")
		}
		return c.Return(Tuple{e.newFileInfo(c.St, h.File), Iface{}})
	}
	e.Intr["(*os.File).Name"] = func(c *Call) []*State {
		_, h, ok := handleOf(c.St, c.Args[0])
		if !ok {
			return c.Panic("nil-deref", "Name on nil *os.File")
		}
		return c.Return(h.Name)
	}
	e.Intr["(*os.File).Close"] = func(c *Call) []*State {
		obj, h, ok := handleOf(c.St, c.Args[0])
		if !ok {
			return c.Return(e.fsError(c.St, "invalid", "invalid argument"))
		}
		if h.Closed {
			return c.Return(e.fsError(c.St, "closed", "close: file already closed"))
		}
		h.Closed = true
		c.St.Heap[obj] = Opaque{Kind: "os.File", Data: h}
		if pf := c.St.fs().Files[h.File].Path; !h.ReadOnly && pf.Const && strings.HasPrefix(pf.S, "pipe:[") {
			c.St.Ghost[fmt.Sprintf("pipeclosed:%d", h.File)] = True
		}
		return c.Return(Iface{})
	}
}

var _ = strings.HasPrefix
