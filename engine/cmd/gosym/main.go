package main

import (
	"encoding/json"
	"flag"
	"fmt"
	"os"
	"strings"
	"time"

	"gosym/sym"
)

func main() {
	if len(os.Args) < 2 {
		fmt.Fprintln(os.Stderr, "usage: gosym run|... [flags]")
		os.Exit(2)
	}
	switch os.Args[1] {
	case "run":
		os.Exit(cmdRun(os.Args[2:]))
	default:
		fmt.Fprintln(os.Stderr, "unknown command", os.Args[1])
		os.Exit(2)
	}
}

type RunResult struct {
	Entry       string            `json:"entry"`
	Pkg         string            `json:"pkg"`
	Verdict     string            `json:"verdict"` // holds | violated | inconclusive
	Aborted     string            `json:"aborted,omitempty"`
	Paths       int64             `json:"paths"`
	PathsCut    int64             `json:"paths_cut"`
	PathsInfeas int64             `json:"paths_infeasible"`
	CutReasons  map[string]int64  `json:"cut_reasons,omitempty"`
	Instrs      int64             `json:"instructions"`
	Forks       int64             `json:"forks"`
	FeasQ       map[string]int64  `json:"feasibility_queries"`
	AssertQ     map[string]int64  `json:"assertion_queries"`
	SolverQ     int               `json:"solver_queries"`
	SolverS     float64           `json:"solver_time_s"`
	SolverErrs  int               `json:"solver_errors"`
	WallS       float64           `json:"wall_s"`
	LoadS       float64           `json:"load_s"`
	Reached     map[string]int64  `json:"reached"`
	AssertSites map[string]int64  `json:"assert_sites"`
	Functions   map[string]int    `json:"functions_encoded"`
	Intrinsics  map[string]int64  `json:"intrinsics_hit"`
	Violations  []*sym.Violation  `json:"violations"`
	Unsupported map[string]int    `json:"unsupported,omitempty"`
	Bounds      map[string]int    `json:"bounds"`
	SampleQ     []string          `json:"sample_queries,omitempty"`
	Solver      string            `json:"solver"`
	Fallbacks   int64             `json:"fallback_queries"`
	Samples     []sym.PathSample  `json:"path_samples,omitempty"`
	InitPoison  []string          `json:"init_poisoned,omitempty"`
	Labels      []string          `json:"-"`
}

func cmdRun(args []string) int {
	fs := flag.NewFlagSet("run", flag.ExitOnError)
	repo := fs.String("repo", "/repo", "repository root")
	harness := fs.String("harness", "/verif/harness", "harness overlay dir")
	pkg := fs.String("pkg", "", "package pattern containing the entry (relative to repo, e.g. ./internal/dag/scheduler)")
	entry := fs.String("entry", "", "entry function name")
	unwind := fs.Int("unwind", 32, "loop unwinding bound")
	delays := fs.Int("delays", 0, "delay bound D")
	jobs := fs.Int("jobs", 8, "worker goroutines")
	qto := fs.Int("query-timeout-ms", 20000, "per query timeout")
	maxSteps := fs.Int("max-steps", 2000000, "max instructions per path")
	maxPaths := fs.Int("max-paths", 0, "abort after this many paths (0 = unlimited)")
	deadline := fs.Duration("deadline", 0, "overall deadline")
	regexExact := fs.Int("regex-exact", 0, "exact regexp results (cell-vector forking) for symbolic subjects of at most N bytes; 0 = over-approximating models only")
	bytesMode := fs.Bool("bytes", false, "strings are byte strings 0..255; range/WriteRune/utf8.ValidString follow UTF-8")
	out := fs.String("out", "", "write JSON result here")
	solver := fs.String("solver", "z3", "z3|z3new|cvc5")
	solver2 := fs.String("fallback", "cvc5", "fallback solver on unknown (empty = none)")
	trace := fs.Bool("trace", false, "trace instructions")
	poll := fs.Int("poll-unwind", 0, "idle polling bound")
	ucut := fs.Bool("unwind-cut", false, "paths that exceed the unwinding bound are cut and counted instead of failing (environment-driven loops)")
	cclock := fs.Bool("concrete-clock", false, "time.Now returns distinct concrete instants")
	stopFirst := fs.Bool("stop-at-first", false, "stop at first violation")
	slog := fs.String("solver-log", "", "log solver input to file")
	var stubs multiFlag
	fs.Var(&stubs, "stub", "name=kind (repeatable); @ expands to the module path")
	samplePaths := fs.Int("sample-paths", 0, "record models+label traces of up to K complete paths")
	fs.Parse(args)

	t0 := time.Now()
	if *slog != "" {
		f, _ := os.Create(*slog)
		sym.SolverLog = f
		defer f.Close()
	}
	ov, hpkgs, err := sym.OverlayFromDir(*harness, *repo)
	if err != nil {
		fmt.Fprintln(os.Stderr, "overlay:", err)
		return 2
	}
	_ = hpkgs
	l, err := sym.Load(*repo, []string{*pkg}, ov)
	if err != nil {
		fmt.Fprintln(os.Stderr, "load:", err)
		return 2
	}
	loadS := time.Since(t0).Seconds()
	var entryFn = findEntry(l, *pkg, *entry)
	if entryFn == nil {
		fmt.Fprintf(os.Stderr, "entry %s not found in %s\n", *entry, *pkg)
		return 2
	}
	cfg := sym.Config{Unwind: *unwind, MaxSteps: *maxSteps, MaxPaths: *maxPaths, MaxDelays: *delays, Jobs: *jobs,
		ExecPrefixes: []string{"github.com/ErdemOzgen/blackdagger"}, TraceInstr: *trace, PollUnwind: *poll, StopAtFirst: *stopFirst, ConcreteClock: *cclock, UnwindCut: *ucut}
	sym.ByteMode = *bytesMode
	sym.RegexExact = *regexExact
	if *deadline > 0 {
		cfg.Deadline = time.Now().Add(*deadline)
	}
	pool := sym.NewPool(*solver, *qto)
	if err := pool.SelfTest(); err != nil {
		fmt.Println("aborted:", err)
		os.Exit(2)
	}
	defer pool.Close()
	eng := sym.NewEngine(l.Prog, l.Fset, cfg, pool)
	if *solver2 != "" && *solver2 != *solver {
		eng.Pool2 = sym.NewPool(*solver2, *qto)
		if err := eng.Pool2.SelfTest(); err != nil {
			fmt.Println("aborted:", err)
			os.Exit(2)
		}
		defer eng.Pool2.Close()
	}
	for _, n := range []string{*solver, *solver2, "z3new"} {
		if n != "" {
			sp := sym.NewPool(n, *qto*12)
			defer sp.Close()
			eng.SlowPools = append(eng.SlowPools, sp)
		}
	}
	eng.RepoDir = *repo
	for _, s := range stubs {
		kv := strings.SplitN(s, "=", 2)
		eng.EnableStub(kv[0], kv[1])
	}
	eng.SamplePaths = *samplePaths
	inits := l.InitOrder([]string{"github.com/ErdemOzgen/blackdagger"})
	eng.Explore(entryFn, inits)
	q, st, errs := pool.Stats()
	res := &RunResult{Entry: *entry, Pkg: *pkg, Aborted: eng.Aborted, Paths: eng.Paths, PathsCut: eng.PathsCut, PathsInfeas: eng.PathsInfeas,
		CutReasons: eng.CutReasons, Instrs: eng.Instrs, Forks: eng.Forks,
		FeasQ:   map[string]int64{"sat": eng.FeasQ[0], "unsat": eng.FeasQ[1], "unknown": eng.FeasQ[2]},
		AssertQ: map[string]int64{"sat": eng.AssertQ[0], "unsat": eng.AssertQ[1], "unknown": eng.AssertQ[2]},
		SolverQ: q, SolverS: st.Seconds(), SolverErrs: errs, WallS: time.Since(t0).Seconds(), LoadS: loadS,
		Reached: eng.Reached, AssertSites: eng.AssertSites, Functions: eng.FnsExec, Intrinsics: eng.IntrHit,
		Violations: eng.Violations, Unsupported: eng.Unsupported, Samples: eng.Samples, Fallbacks: eng.Fallbacks, InitPoison: eng.InitPoison, SampleQ: eng.SampleQ, Solver: *solver,
		Bounds: map[string]int{"unwind": *unwind, "delays": *delays, "max_steps": *maxSteps}}
	switch {
	case eng.Aborted != "" && !(strings.HasPrefix(eng.Aborted, "violation found")):
		res.Verdict = "inconclusive"
	case len(eng.Violations) > 0:
		res.Verdict = "violated"
	case eng.FeasQ[2] > 0 && false:
		res.Verdict = "inconclusive"
	case errs > 0:
		res.Verdict = "inconclusive"
	default:
		res.Verdict = "holds"
	}
	b, _ := json.MarshalIndent(res, "", " ")
	if *out != "" {
		os.WriteFile(*out, b, 0644)
	}
	fmt.Printf("%s %s: verdict=%s paths=%d cut=%d infeasible=%d instrs=%d queries=%d solver=%.1fs wall=%.1fs (load %.1fs)\n",
		*pkg, *entry, res.Verdict, res.Paths, res.PathsCut, res.PathsInfeas, res.Instrs, q, st.Seconds(), res.WallS, loadS)
	if eng.Aborted != "" {
		fmt.Println("  aborted:", eng.Aborted)
	}
	for k, v := range eng.CutReasons {
		fmt.Printf("  cut %s: %d\n", k, v)
	}
	for _, v := range eng.Violations {
		fmt.Printf("  VIOL kind=%s label=%q fn=%s pos=%s class=%s msg=%s\n", v.Kind, v.Label, v.Fn, v.Pos, v.Class, trunc(v.Msg, 300))
		for _, m := range v.Model {
			fmt.Printf("      %s = %q\n", m.Tag, m.Value)
		}
	}
	switch res.Verdict {
	case "holds":
		return 0
	case "violated":
		return 1
	}
	return 2
}

func trunc(s string, n int) string {
	if len(s) > n {
		return s[:n] + "..."
	}
	return s
}

func findEntry(l *sym.Loaded, pkg, entry string) *ssaFunc {
	for _, p := range l.Pkgs {
		if f := p.Func(entry); f != nil {
			return f
		}
	}
	return nil
}

type multiFlag []string

func (m *multiFlag) String() string     { return strings.Join(*m, ",") }
func (m *multiFlag) Set(v string) error { *m = append(*m, v); return nil }
