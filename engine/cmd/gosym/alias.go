package main

import "golang.org/x/tools/go/ssa"

type ssaFunc = ssa.Function
